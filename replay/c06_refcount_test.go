package eventlogger

// Replay driver for C06 (injected with go test -overlay): in-use accounting against registered pipelines.

import (
	"context"
	"testing"
)

type verifCloseCounter struct {
	JSONFormatter
	typ    NodeType
	closed int
}

func (n *verifCloseCounter) Type() NodeType                                         { return n.typ }
func (n *verifCloseCounter) Process(ctx context.Context, e *Event) (*Event, error) { return e, nil }
func (n *verifCloseCounter) Close(ctx context.Context) error                       { n.closed++; return nil }

func verifBroker(t *testing.T, ids ...NodeID) (*Broker, map[NodeID]*verifCloseCounter) {
	b, _ := NewBroker()
	nodes := map[NodeID]*verifCloseCounter{}
	for _, id := range ids {
		typ := NodeTypeFilter
		switch id[0] {
		case 'm':
			typ = NodeTypeFormatter
		case 's':
			typ = NodeTypeSink
		}
		n := &verifCloseCounter{typ: typ}
		nodes[id] = n
		if err := b.RegisterNode(id, n); err != nil {
			t.Fatal(err)
		}
	}
	return b, nodes
}

// F3: RemovePipeline must release the pipeline's references.
func TestVerifC06RemovePipelineReleases(t *testing.T) {
	b, _ := verifBroker(t, "f", "m", "s")
	if err := b.RegisterPipeline(Pipeline{PipelineID: "p", EventType: "t", NodeIDs: []NodeID{"f", "m", "s"}}); err != nil {
		t.Fatal(err)
	}
	if err := b.RemovePipeline("t", "p"); err != nil {
		t.Fatal(err)
	}
	for _, id := range []NodeID{"f", "m", "s"} {
		if err := b.RemoveNode(context.Background(), id); err != nil {
			t.Fatalf("VERIF-REPRO: node %q is pinned although no pipeline lists it: %v", id, err)
		}
	}
}

// F4: overwriting a pipeline must release the references of the replaced one.
func TestVerifC06OverwriteReleases(t *testing.T) {
	b, nodes := verifBroker(t, "f", "m", "s", "m2", "s2")
	if err := b.RegisterPipeline(Pipeline{PipelineID: "p", EventType: "t", NodeIDs: []NodeID{"f", "m", "s"}}); err != nil {
		t.Fatal(err)
	}
	if err := b.RegisterPipeline(Pipeline{PipelineID: "p", EventType: "t", NodeIDs: []NodeID{"m2", "s2"}}); err != nil {
		t.Fatal(err)
	}
	for _, id := range []NodeID{"f", "m", "s"} {
		if err := b.RemoveNode(context.Background(), id); err != nil {
			t.Fatalf("VERIF-REPRO: node %q is pinned by an overwritten pipeline: %v", id, err)
		}
		if nodes[id].closed != 1 {
			t.Fatalf("VERIF-REPRO: node %q closed %d times", id, nodes[id].closed)
		}
	}
	if err := b.RemoveNode(context.Background(), "m2"); err == nil {
		t.Fatalf("VERIF-REPRO: node m2 removed while its pipeline is registered")
	}
}

// F5: a node id listed twice counts once, and the nodes after the repeat are still released and closed.
func TestVerifC06DuplicateIDs(t *testing.T) {
	b, nodes := verifBroker(t, "f", "x", "m", "s")
	if err := b.RegisterPipeline(Pipeline{PipelineID: "p", EventType: "t", NodeIDs: []NodeID{"f", "x", "f", "m", "s"}}); err != nil {
		t.Fatal(err)
	}
	ok, err := b.RemovePipelineAndNodes(context.Background(), "t", "p")
	if !ok || err != nil {
		t.Fatal(ok, err)
	}
	for id, n := range nodes {
		if n.closed != 1 {
			t.Fatalf("VERIF-REPRO: node %q closed %d times after RemovePipelineAndNodes, want 1", id, n.closed)
		}
		if err := b.RegisterPipeline(Pipeline{PipelineID: "q", EventType: "t", NodeIDs: []NodeID{id, "m", "s"}}); err == nil {
			t.Fatalf("VERIF-REPRO: node %q is still registered after RemovePipelineAndNodes", id)
		}
	}
}
