package gated

// Replay driver for C17/C11 (injected with go test -overlay): FlushAll / expiry with several open groups.

import (
	"context"
	"testing"
	"time"

	"github.com/hashicorp/eventlogger"
)

type verifSender struct{ sent []interface{} }

func (s *verifSender) Send(ctx context.Context, t eventlogger.EventType, payload interface{}) (eventlogger.Status, error) {
	s.sent = append(s.sent, payload)
	return eventlogger.Status{}, nil
}

func TestVerifC17FlushAllEmptiesGate(t *testing.T) {
	s := &verifSender{}
	f := &Filter{Broker: s}
	for _, id := range []string{"a", "b", "c"} {
		e := &eventlogger.Event{Type: "t", Payload: &Payload{ID: id, Detail: map[string]interface{}{"k": id}}}
		if _, err := f.Process(context.Background(), e); err != nil {
			t.Fatal(err)
		}
	}
	if err := f.FlushAll(context.Background()); err != nil {
		t.Fatal(err)
	}
	if len(s.sent) != 3 || len(f.gated) != 0 {
		t.Fatalf("VERIF-REPRO: FlushAll returned nil with %d groups sent and %d still gated (want 3 and 0)", len(s.sent), len(f.gated))
	}
}

func TestVerifC17ExpirySweepsAllExpired(t *testing.T) {
	s := &verifSender{}
	now := time.Unix(1000, 0)
	f := &Filter{Broker: s, Expiration: time.Second, NowFunc: func() time.Time { return now }}
	for _, id := range []string{"a", "b", "c"} {
		e := &eventlogger.Event{Type: "t", Payload: &Payload{ID: id, Detail: map[string]interface{}{"k": id}}}
		if _, err := f.Process(context.Background(), e); err != nil {
			t.Fatal(err)
		}
	}
	now = now.Add(time.Minute)
	e := &eventlogger.Event{Type: "t", Payload: &Payload{ID: "d", Detail: map[string]interface{}{"k": "d"}}}
	if _, err := f.Process(context.Background(), e); err != nil {
		t.Fatal(err)
	}
	if len(s.sent) != 3 || len(f.gated) != 1 {
		t.Fatalf("VERIF-REPRO: after a successful Process %d expired groups were sent and %d groups are gated (want 3 and 1)", len(s.sent), len(f.gated))
	}
}
