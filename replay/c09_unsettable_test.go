package encrypt

// Overlay driver (known finding C09/F10): a classified string that reflection cannot set is forwarded in clear with
// err == nil. filterValue returns nil when !fv.CanSet(); the pinned test TestFilter_filterValue/test-not-settable
// pins that behaviour, so the defect is recorded, not repaired.
import (
	"context"
	"reflect"
	"testing"
)

type verifC09Unsettable struct {
	Secret string `class:"secret"`
}

func TestVerifC09UnsettableValueForwardedInClear(t *testing.T) {
	f := &Filter{Wrapper: TestWrapper(t)}
	v := verifC09Unsettable{Secret: "plaintext-canary"}
	// a struct value (not a pointer): its fields are not settable through reflection
	fv := reflect.ValueOf(v).Field(0)
	tag := getClassificationFromTagString("secret")
	err := f.filterValue(context.Background(), fv, tag)
	if err == nil && fv.String() == "plaintext-canary" {
		t.Fatalf("VERIF-REPRO: filterValue returned nil for a secret value it could not set; the value is still %q", fv.String())
	}
}
