package eventlogger

// Replay driver for C12 (injected with go test -overlay): a node whose Close / Reopen re-enters Broker.Send.

import (
	"context"
	"testing"
	"time"
)

type verifReentrantNode struct {
	b      *Broker
	closed int
}

func (n *verifReentrantNode) Process(ctx context.Context, e *Event) (*Event, error) { return nil, nil }
func (n *verifReentrantNode) Reopen() error {
	_, _ = n.b.Send(context.Background(), "verif-other", "x")
	return nil
}
func (n *verifReentrantNode) Type() NodeType { return NodeTypeSink }
func (n *verifReentrantNode) Close(ctx context.Context) error {
	n.closed++
	_, _ = n.b.Send(ctx, "verif-other", "x")
	return nil
}

func verifWithin(t *testing.T, what string, f func()) {
	t.Helper()
	done := make(chan struct{})
	go func() { f(); close(done) }()
	select {
	case <-done:
	case <-time.After(2 * time.Second):
		t.Fatalf("VERIF-REPRO: %s did not return within 2s (deadlock on the Broker lock)", what)
	}
}

func TestVerifC12Reentrant(t *testing.T) {
	b, _ := NewBroker()
	n := &verifReentrantNode{b: b}
	if err := b.RegisterNode("fmt", &JSONFormatter{}); err != nil {
		t.Fatal(err)
	}
	if err := b.RegisterNode("sink", n); err != nil {
		t.Fatal(err)
	}
	if err := b.RegisterPipeline(Pipeline{PipelineID: "p", EventType: "t", NodeIDs: []NodeID{"fmt", "sink"}}); err != nil {
		t.Fatal(err)
	}
	// a writer queued behind a read lock makes re-entrant readers block: simulate contention
	stop := make(chan struct{})
	go func() {
		for {
			select {
			case <-stop:
				return
			default:
				_ = b.SetSuccessThreshold("verif-other", 0)
			}
		}
	}()
	defer close(stop)
	verifWithin(t, "Broker.Reopen with a node whose Reopen calls Send", func() { _ = b.Reopen(context.Background()) })
	verifWithin(t, "RemovePipelineAndNodes with a node whose Close calls Send", func() {
		_, _ = b.RemovePipelineAndNodes(context.Background(), "t", "p")
	})
	if n.closed != 1 {
		t.Fatalf("VERIF-REPRO: node closed %d times, want 1", n.closed)
	}
	if err := b.RegisterNode("lonely", n); err != nil {
		t.Fatal(err)
	}
	verifWithin(t, "RemoveNode with a node whose Close calls Send", func() { _ = b.RemoveNode(context.Background(), "lonely") })
}
