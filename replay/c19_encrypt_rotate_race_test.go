package encrypt

// Overlay driver (go test -race -overlay): concurrent Rotate and Process on one encrypt.Filter.
import (
	"context"
	"sync"
	"testing"

	"github.com/hashicorp/eventlogger"
)

type verifC19Payload struct {
	S string `class:"secret"`
}

func TestVerifC19EncryptRotateRace(t *testing.T) {
	w := TestWrapper(t)
	f := &Filter{Wrapper: w, HmacSalt: []byte("salt"), HmacInfo: []byte("info")}
	var wg sync.WaitGroup
	wg.Add(2)
	go func() {
		defer wg.Done()
		for i := 0; i < 200; i++ {
			f.Rotate(WithWrapper(w))
		}
	}()
	go func() {
		defer wg.Done()
		for i := 0; i < 200; i++ {
			_, _ = f.Process(context.Background(), &eventlogger.Event{Payload: &verifC19Payload{S: "x"}})
		}
	}()
	wg.Wait()
}
