package encrypt

// Overlay driver (go test -race -overlay): one pipeline's encrypt.Filter copies the event while another pipeline's
// formatter stores its rendering on the same event.
import (
	"context"
	"sync"
	"testing"

	"github.com/hashicorp/eventlogger"
)

type verifC19Copy struct {
	S string `class:"secret"`
}

func TestVerifC19EncryptCopyVsFormat(t *testing.T) {
	f := &Filter{Wrapper: TestWrapper(t)}
	e := &eventlogger.Event{Type: "t", Payload: &verifC19Copy{S: "x"}, Formatted: map[string][]byte{}}
	var wg sync.WaitGroup
	wg.Add(2)
	go func() {
		defer wg.Done()
		for i := 0; i < 200; i++ {
			e.FormattedAs("json", []byte("{}"))
		}
	}()
	go func() {
		defer wg.Done()
		for i := 0; i < 200; i++ {
			_, _ = f.Process(context.Background(), e)
		}
	}()
	wg.Wait()
}
