package cloudevents

// Replay driver for C18 (injected with go test -overlay): a failing signer must not let the event through unsigned.

import (
	"context"
	"errors"
	"net/url"
	"strings"
	"testing"

	"github.com/hashicorp/eventlogger"
)

func TestVerifC18SignFailureNotForwarded(t *testing.T) {
	src, _ := url.Parse("https://example.com/verif")
	f := &FormatterFilter{
		Source:         src,
		Signer:         func(context.Context, []byte) (string, error) { return "", errors.New("kms unavailable") },
		SignEventTypes: []string{"t"},
	}
	e := &eventlogger.Event{Type: "t", Payload: map[string]interface{}{"k": "v"}, Formatted: map[string][]byte{}}
	out, err := f.Process(context.Background(), e)
	if err == nil || out != nil {
		b, _ := e.Format(string(FormatJSON))
		t.Fatalf("VERIF-REPRO: signing failed but Process returned (%v, %v); stored document has serialized_hmac=%v", out != nil, err, strings.Contains(string(b), "serialized_hmac"))
	}
}
