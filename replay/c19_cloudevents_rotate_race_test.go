package cloudevents

// Overlay driver (go test -race -overlay): concurrent Rotate and Process on one cloudevents.FormatterFilter.
import (
	"context"
	"net/url"
	"sync"
	"testing"

	"github.com/hashicorp/eventlogger"
)

func TestVerifC19CloudeventsRotateRace(t *testing.T) {
	u, _ := url.Parse("https://localhost")
	signer := func(context.Context, []byte) (string, error) { return "sig", nil }
	f := &FormatterFilter{Source: u, Signer: signer, SignEventTypes: []string{"t"}}
	var wg sync.WaitGroup
	wg.Add(2)
	go func() {
		defer wg.Done()
		for i := 0; i < 200; i++ {
			_ = f.Rotate(signer)
		}
	}()
	go func() {
		defer wg.Done()
		for i := 0; i < 200; i++ {
			_, _ = f.Process(context.Background(), &eventlogger.Event{Type: "t", Payload: "x", Formatted: map[string][]byte{}})
		}
	}()
	wg.Wait()
}
