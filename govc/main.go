package main

import (
	"flag"
	"fmt"
	"os"
	"sort"
	"strings"
)

func main() {
	if len(os.Args) < 2 {
		fmt.Fprintln(os.Stderr, "usage: govc run|check|replay ...")
		os.Exit(2)
	}
	defer cleanupSmtDir()
	switch os.Args[1] {
	case "run":
		os.Exit(cmdRun(os.Args[2:]))
	case "check":
		code := cmdCheck(os.Args[2:])
		cleanupSmtDir()
		os.Exit(code)
	case "replay":
		code := cmdReplay(os.Args[2:])
		cleanupSmtDir()
		os.Exit(code)
	default:
		fmt.Fprintln(os.Stderr, "unknown command")
		os.Exit(2)
	}
}

// cmdRun: debugging entry – verify the named functions and print every obligation's result.
func cmdRun(args []string) int {
	fs := flag.NewFlagSet("run", flag.ExitOnError)
	dir := fs.String("dir", "/repo", "module directory")
	repo := fs.String("repo", "/repo", "repository root")
	pkgs := fs.String("pkgs", "./...", "package patterns (comma separated)")
	timeout := fs.Int("timeout", 10, "solver timeout (s)")
	verbose := fs.Bool("v", false, "verbose")
	dump := fs.String("dump", "", "directory to dump failing queries")
	fs.Parse(args)
	eng := newEngine(EngineOpts{Timeout: *timeout, Verbose: *verbose})
	if err := eng.load(Unit{Dir: *dir, Pkgs: strings.Split(*pkgs, ",")}, *repo); err != nil {
		fmt.Fprintln(os.Stderr, "load:", err)
		return 2
	}
	var runs []*FnRun
	for _, pat := range fs.Args() {
		n := 0
		for _, key := range sortedKeys(eng.funcs) {
			if globMatch(pat, key) {
				n++
				runs = append(runs, eng.verifyFunc(eng.funcs[key]))
			}
		}
		if n == 0 {
			fmt.Println("no function matches", pat)
		}
	}
	eng.solveAll(runs, nil)
	bad := 0
	for _, r := range runs {
		fmt.Printf("== %s: %d obligations, %d paths\n", r.relName, len(r.obls), r.npaths)
		for _, e := range r.errs {
			fmt.Println("   ERROR:", e)
		}
		for _, n := range r.abstractedNotes {
			fmt.Println("   abstracted:", n)
		}
		sort.SliceStable(r.obls, func(i, j int) bool { return r.obls[i].Name < r.obls[j].Name })
		anyRet := false
		for _, o := range r.obls {
			if o.Kind == "canary" && o.Label == "return" && o.Result != nil && o.Result.Status != "unsat" {
				anyRet = true
			}
		}
		for _, o := range r.obls {
			st := "?"
			if o.Result != nil {
				st = o.Result.Status
			}
			okay := st == o.Expect || (o.Expect == "sat" && st != "unsat" && st != "error")
			if o.Kind == "canary" && o.Label == "return" && anyRet {
				okay = true
			}
			if o.Kind == "errflow" && !okay && !*verbose {
				// sweep instances are claimed only through the baseline (govc check); not a failure of this run
				continue
			}
			mark := "ok "
			if !okay {
				mark = "BAD"
				bad++
			}
			if *verbose || !okay {
				fmt.Printf("   %s %-8s %s  [%s] %s\n", mark, st, o.Name, o.Pos, o.PathDesc)
				if !okay && o.Result != nil && o.Result.Model != "" && *verbose {
					fmt.Println("      model:", firstLines(o.Result.Model, 40))
				}
				if !okay && o.Result != nil && o.Result.Status == "error" {
					fmt.Println("      raw:", o.Result.Raw)
				}
				if !okay && *dump != "" {
					os.MkdirAll(*dump, 0o755)
					os.WriteFile(*dump+"/"+sanitize(o.Name)+".smt2", []byte(o.QueryText), 0o644)
				}
			}
		}
	}
	fmt.Printf("total bad: %d\n", bad)
	if bad > 0 {
		return 1
	}
	return 0
}

