package main

// SMT-LIB emission and the solver portfolio.

import (
	"bytes"
	"context"
	"fmt"
	"os"
	"os/exec"
	"path/filepath"
	"regexp"
	"sort"
	"strings"
	"sync"
	"time"
)

// ---- tiny term helpers (terms are strings) ----

func sAnd(xs ...string) string {
	var o []string
	for _, x := range xs {
		if x == "true" || x == "" {
			continue
		}
		if x == "false" {
			return "false"
		}
		o = append(o, x)
	}
	switch len(o) {
	case 0:
		return "true"
	case 1:
		return o[0]
	}
	return "(and " + strings.Join(o, " ") + ")"
}

func sOr(xs ...string) string {
	var o []string
	for _, x := range xs {
		if x == "false" || x == "" {
			continue
		}
		if x == "true" {
			return "true"
		}
		o = append(o, x)
	}
	switch len(o) {
	case 0:
		return "false"
	case 1:
		return o[0]
	}
	return "(or " + strings.Join(o, " ") + ")"
}

func sNot(x string) string {
	switch x {
	case "true":
		return "false"
	case "false":
		return "true"
	}
	if strings.HasPrefix(x, "(not ") && balanced(x[5:len(x)-1]) {
		return x[5 : len(x)-1]
	}
	return "(not " + x + ")"
}

func balanced(s string) bool {
	d := 0
	for i := 0; i < len(s); i++ {
		switch s[i] {
		case '(':
			d++
		case ')':
			d--
			if d < 0 {
				return false
			}
		case '|':
			j := strings.IndexByte(s[i+1:], '|')
			if j < 0 {
				return false
			}
			i += j + 1
		}
	}
	return d == 0
}

func sImp(a, b string) string {
	if a == "true" {
		return b
	}
	if a == "false" || b == "true" {
		return "true"
	}
	if b == "false" {
		return sNot(a)
	}
	return "(=> " + a + " " + b + ")"
}

var intLit = regexp.MustCompile(`^(-?\d+|\(- \d+\))$`)

func isIntLit(s string) bool { return intLit.MatchString(s) }

func sEq(a, b string) string {
	if a == b {
		return "true"
	}
	if isIntLit(a) && isIntLit(b) {
		return "false" // distinct literals (same literal handled above)
	}
	if (a == "true" && b == "false") || (a == "false" && b == "true") {
		return "false"
	}
	if b == "true" {
		return a
	}
	if a == "true" {
		return b
	}
	if b == "false" {
		return sNot(a)
	}
	if a == "false" {
		return sNot(b)
	}
	return "(= " + a + " " + b + ")"
}

func sIte(c, a, b string) string {
	if c == "true" {
		return a
	}
	if c == "false" {
		return b
	}
	if a == b {
		return a
	}
	return "(ite " + c + " " + a + " " + b + ")"
}

func sInt(n int64) string {
	if n < 0 {
		return fmt.Sprintf("(- %d)", -n)
	}
	return fmt.Sprintf("%d", n)
}

func sSel(a, i string) string     { return "(select " + a + " " + i + ")" }
func sSto(a, i, v string) string  { return "(store " + a + " " + i + " " + v + ")" }
func sApp(f string, a ...string) string {
	if len(a) == 0 {
		return f
	}
	return "(" + f + " " + strings.Join(a, " ") + ")"
}

// mangle produces a quoted SMT symbol.
func mangle(s string) string {
	s = strings.ReplaceAll(s, "|", "!")
	s = strings.ReplaceAll(s, "\\", "!")
	return "|" + s + "|"
}

// ---- query and solver ----

type Query struct {
	Name    string
	Decls   []string // (declare-...) lines, in order
	Asserts []string // assertion terms (path condition)
	Goal    string   // term to prove
	GetVals []string // terms whose values to ask for on sat
}

type SolverResult struct {
	Status  string // unsat | sat | unknown | timeout | error
	Solver  string
	Seconds float64
	Model   string
	Raw     string
	PerSolver map[string]string
	Retried bool // answer obtained in the low-contention second pass
}

var symRe = regexp.MustCompile(`\|[^|]*\||[A-Za-z_$.!@%^&*~?<>=/+\-][A-Za-z0-9_$.!@%^&*~?<>=/+\-]*`)

func usedSyms(ts ...string) map[string]bool {
	m := map[string]bool{}
	for _, t := range ts {
		for _, s := range symRe.FindAllString(t, -1) {
			m[s] = true
		}
	}
	return m
}

var baseSyms = map[string]bool{"ix": false, "objkind": true, "objowner": true, "strlen": true, "wraps": true}

var declNameRe = regexp.MustCompile(`^\((?:declare-const|declare-fun|define-fun)\s+(\|[^|]*\||\S+)`)

func (q *Query) Text(prelude []string) string {
	var b bytes.Buffer
	b.WriteString("(set-option :produce-models true)\n(set-logic ALL)\n")
	// Determine needed declarations by closure over used symbols.
	all := append(append([]string{}, prelude...), q.Decls...)
	type d struct {
		name, line string
	}
	var ds []d
	for _, l := range all {
		m := declNameRe.FindStringSubmatch(l)
		if m == nil {
			ds = append(ds, d{"", l})
		} else {
			ds = append(ds, d{m[1], l})
		}
	}
	used := usedSyms(append(append([]string{}, q.Asserts...), q.Goal)...)
	for _, g := range q.GetVals {
		for k := range usedSyms(g) {
			used[k] = true
		}
	}
	// axioms in prelude (plain asserts) are included if every declared symbol they mention is used
	// (computed after closure), except we must iterate to a fixpoint.
	declared := map[string]bool{}
	for _, x := range ds {
		if x.name != "" {
			declared[x.name] = true
		}
	}
	include := make([]bool, len(ds))
	changed := true
	for changed {
		changed = false
		for i, x := range ds {
			if include[i] {
				continue
			}
			if x.name != "" {
				if used[x.name] {
					include[i] = true
					changed = true
					for k := range usedSyms(x.line) {
						if !used[k] {
							used[k] = true
						}
					}
				}
				continue
			}
			// an axiom: include when one of its non-base declared symbols is used (base symbols alone
			// never pull an axiom in; they are declared on demand)
			hit := false
			for k := range usedSyms(x.line) {
				if declared[k] && !baseSyms[k] && used[k] {
					hit = true
					break
				}
			}
			if !hit {
				onlyBase := true
				for k := range usedSyms(x.line) {
					if declared[k] && !baseSyms[k] {
						onlyBase = false
					}
				}
				if onlyBase {
					hit = true
					for k := range usedSyms(x.line) {
						if declared[k] && !used[k] {
							hit = false
						}
					}
				}
			}
			if hit {
				include[i] = true
				changed = true
				for k := range usedSyms(x.line) {
					if declared[k] && !used[k] {
						used[k] = true
					}
				}
			}
		}
	}
	for i, x := range ds {
		if include[i] {
			b.WriteString(x.line)
			b.WriteByte('\n')
		}
	}
	for _, a := range q.Asserts {
		if a == "true" {
			continue
		}
		b.WriteString("(assert " + a + ")\n")
	}
	b.WriteString("(assert (not " + q.Goal + "))\n(check-sat)\n")
	if len(q.GetVals) > 0 {
		b.WriteString("(get-value (" + strings.Join(q.GetVals, " ") + "))\n")
	}
	return b.String()
}

type solverSpec struct {
	name string
	args func(file string, timeout int) []string
}

var solvers = []solverSpec{
	{"z3-new", func(f string, t int) []string { return []string{"z3-new", fmt.Sprintf("-T:%d", t), f} }},
	{"z3", func(f string, t int) []string { return []string{"z3", fmt.Sprintf("-T:%d", t), f} }},
	{"cvc5", func(f string, t int) []string {
		return []string{"cvc5", fmt.Sprintf("--tlimit=%d", t*1000), "--produce-models", f}
	}},
}

var (
	smtDir     string
	smtDirOnce sync.Once
	solverStat = struct {
		sync.Mutex
		secs  map[string]float64
		wins  map[string]int
		total int
	}{secs: map[string]float64{}, wins: map[string]int{}}
)

func ensureSmtDir() string {
	smtDirOnce.Do(func() {
		d, err := os.MkdirTemp("", "govc-smt-")
		if err != nil {
			panic(err)
		}
		smtDir = d
	})
	return smtDir
}

func cleanupSmtDir() {
	if smtDir != "" {
		os.RemoveAll(smtDir)
	}
}

var fileCounter struct {
	sync.Mutex
	n int
}

// runQuery races the solvers; first definite answer wins.
func runQuery(text string, timeoutSec int, requireAll bool) SolverResult {
	dir := ensureSmtDir()
	fileCounter.Lock()
	fileCounter.n++
	n := fileCounter.n
	fileCounter.Unlock()
	file := filepath.Join(dir, fmt.Sprintf("q%06d.smt2", n))
	if err := os.WriteFile(file, []byte(text), 0o644); err != nil {
		return SolverResult{Status: "error", Raw: err.Error()}
	}
	defer os.Remove(file)

	type res struct {
		solver string
		status string
		out    string
		secs   float64
	}
	ctx, cancel := context.WithCancel(context.Background())
	defer cancel()
	ch := make(chan res, len(solvers))
	for _, s := range solvers {
		s := s
		go func() {
			t0 := time.Now()
			argv := s.args(file, timeoutSec)
			cctx, ccancel := context.WithTimeout(ctx, time.Duration(timeoutSec+2)*time.Second)
			defer ccancel()
			cmd := exec.CommandContext(cctx, argv[0], argv[1:]...)
			out, _ := cmd.CombinedOutput()
			first := strings.TrimSpace(strings.SplitN(string(out), "\n", 2)[0])
			st := "unknown"
			switch first {
			case "unsat", "sat", "unknown", "timeout":
				st = first
			default:
				if cctx.Err() != nil {
					st = "timeout"
				} else if strings.Contains(first, "error") || strings.HasPrefix(first, "(error") {
					st = "error"
				}
			}
			ch <- res{s.name, st, string(out), time.Since(t0).Seconds()}
		}()
	}
	per := map[string]string{}
	var final *res
	var errs []string
	var grace <-chan time.Time
	for i := 0; i < len(solvers); i++ {
		var r res
		graceOver := false
		select {
		case r = <-ch:
		case <-grace:
			graceOver = true
		}
		if graceOver {
			// thorough tier: the other solvers had a few more seconds to contradict the first definite answer
			cancel()
			go func(k int) {
				for j := 0; j < k; j++ {
					<-ch
				}
			}(len(solvers) - i)
			break
		}
		per[r.solver] = r.status
		solverStat.Lock()
		solverStat.secs[r.solver] += r.secs
		solverStat.Unlock()
		if r.status == "error" {
			errs = append(errs, r.solver+": "+firstLines(r.out, 3))
		}
		if r.status == "unsat" || r.status == "sat" {
			if final == nil {
				rr := r
				final = &rr
				if requireAll {
					grace = time.After(3 * time.Second)
				}
				if !requireAll {
					cancel()
					// drain remaining
					go func(k int) {
						for j := 0; j < k; j++ {
							<-ch
						}
					}(len(solvers) - i - 1)
					break
				}
			} else if final.status != r.status {
				return SolverResult{Status: "error", Raw: fmt.Sprintf("solver disagreement: %s=%s %s=%s", final.solver, final.status, r.solver, r.status), PerSolver: per}
			}
		}
	}
	if final == nil {
		st := "unknown"
		allTimeout := true
		for _, v := range per {
			if v != "timeout" {
				allTimeout = false
			}
		}
		if allTimeout {
			st = "timeout"
		}
		if len(errs) == len(solvers) {
			st = "error"
		}
		return SolverResult{Status: st, PerSolver: per, Raw: strings.Join(errs, "\n")}
	}
	solverStat.Lock()
	solverStat.wins[final.solver]++
	solverStat.total++
	solverStat.Unlock()
	out := SolverResult{Status: final.status, Solver: final.solver, Seconds: final.secs, PerSolver: per, Raw: final.out}
	if final.status == "sat" {
		if i := strings.Index(final.out, "\n"); i >= 0 {
			out.Model = strings.TrimSpace(final.out[i+1:])
		}
	}
	return out
}

func firstLines(s string, n int) string {
	ls := strings.Split(strings.TrimSpace(s), "\n")
	if len(ls) > n {
		ls = ls[:n]
	}
	return strings.Join(ls, " / ")
}

func sortedKeys[M ~map[string]V, V any](m M) []string {
	ks := make([]string, 0, len(m))
	for k := range m {
		ks = append(ks, k)
	}
	sort.Strings(ks)
	return ks
}
