package main

// Scenario drivers: replay of refuted obligations on the real code (go test -overlay). Filled in per property.

func runDriverFor(verif, repo, prop string, o *Obligation, path string) bool { return false }
