package main

// Scenario drivers: a refuted obligation that has a driver is replayed on the real code. The driver is an
// in-package Go test under /verif/replay, injected with `go test -overlay` (nothing is written to /repo); it fails
// with a line containing VERIF-REPRO (or a race-detector report) when the real code shows the behaviour the
// obligation forbids. Table: /verif/replay/drivers.json.

import (
	"context"
	"encoding/json"
	"os"
	"os/exec"
	"path/filepath"
	"strings"
	"time"
)

type driverSpec struct {
	Property     string `json:"property"`
	ClausePrefix string `json:"clause_prefix"`
	File         string `json:"file"`
	ModDir       string `json:"moddir"`
	PkgDir       string `json:"pkgdir"`
	Run          string `json:"run"`
	Race         bool   `json:"race"`
}

// runDriverFor returns true when a driver reproduced the violation on the real code; its output is appended to
// the replay file either way.
func runDriverFor(verif, repo, prop string, o *Obligation, path string) bool {
	var specs []driverSpec
	if loadJSON(filepath.Join(verif, "replay", "drivers.json"), &specs) != nil {
		return false
	}
	for _, d := range specs {
		if d.Property != prop || !strings.HasPrefix(o.ClauseKey, d.ClausePrefix) {
			continue
		}
		tmp, err := os.MkdirTemp("", "govc-replay-")
		if err != nil {
			return false
		}
		defer os.RemoveAll(tmp)
		target := filepath.Join(repo, d.ModDir, d.PkgDir, "zz_verif_replay_test.go")
		ov, _ := json.Marshal(map[string]map[string]string{"Replace": {target: filepath.Join(verif, "replay", d.File)}})
		ovf := filepath.Join(tmp, "overlay.json")
		os.WriteFile(ovf, ov, 0o644)
		args := []string{"test", "-overlay", ovf, "-vet=off", "-count=1", "-timeout", "60s", "-run", "^" + d.Run + "$"}
		if d.Race {
			args = append(args, "-race")
		}
		args = append(args, "./"+d.PkgDir)
		ctx, cancel := context.WithTimeout(context.Background(), 150*time.Second)
		defer cancel()
		cmd := exec.CommandContext(ctx, "go", args...)
		cmd.Dir = filepath.Join(repo, d.ModDir)
		cmd.Env = goEnv()
		out, err := cmd.CombinedOutput()
		text := string(out)
		reproduced := err != nil && (strings.Contains(text, "VERIF-REPRO") || strings.Contains(text, "DATA RACE"))
		// append to the replay file
		var rep map[string]interface{}
		if loadJSON(path, &rep) == nil && rep != nil {
			if len(text) > 6000 {
				text = text[:6000] + "\n…"
			}
			rep["driver"] = map[string]interface{}{"test": d.Run, "file": "/verif/replay/" + d.File, "command": "go " + strings.Join(args, " "), "dir": cmd.Dir,
				"reproduced_on_real_code": reproduced, "output": text}
			writeJSON(path, rep)
		}
		if reproduced {
			return true
		}
	}
	return false
}
