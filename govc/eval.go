package main

// Evaluation of contract expressions to symbolic values over a state.

import (
	"os"
	"fmt"
	"go/constant"
	"go/types"
	"strings"

	"golang.org/x/tools/go/ssa"
)

const (
	KNil  VK = 100 + iota // untyped nil literal
	KMapH                 // map handle (ghost map field / sync.Map view)
)

type EvalCtx struct {
	foreign bool // evaluating a clause of a callee's contract at a call site
	run  *FnRun
	st   *State
	old  *State
	vars map[string]*V
	fn   *ssa.Function // function whose locals may be named (nil = none)
	pkg  *types.Package
	cs   *ContractSet
	what string
	oldVars map[string]*V
}

type evalError struct{ msg string }

func (c *EvalCtx) fail(f string, a ...interface{}) {
	panic(evalError{fmt.Sprintf("%s: %s", c.what, fmt.Sprintf(f, a...))})
}

func (c *EvalCtx) with(name string, v *V) *EvalCtx {
	n := *c
	n.vars = make(map[string]*V, len(c.vars)+1)
	for k, x := range c.vars {
		n.vars[k] = x
	}
	n.vars[name] = v
	return &n
}

// resolveType resolves a textual type in the package scope.
func (c *EvalCtx) resolveType(s string) types.Type {
	return resolveTypeIn(c.pkg, s)
}

func resolveTypeIn(pkg *types.Package, s string) types.Type {
	s = strings.TrimSpace(s)
	switch {
	case strings.HasPrefix(s, "*"):
		t := resolveTypeIn(pkg, s[1:])
		if t == nil {
			return nil
		}
		return types.NewPointer(t)
	case strings.HasPrefix(s, "[]"):
		t := resolveTypeIn(pkg, s[2:])
		if t == nil {
			return nil
		}
		return types.NewSlice(t)
	case strings.HasPrefix(s, "map["):
		d := 0
		for i := 3; i < len(s); i++ {
			if s[i] == '[' {
				d++
			} else if s[i] == ']' {
				d--
				if d == 0 {
					k := resolveTypeIn(pkg, s[4:i])
					v := resolveTypeIn(pkg, s[i+1:])
					if k == nil || v == nil {
						return nil
					}
					return types.NewMap(k, v)
				}
			}
		}
		return nil
	}
	if s == "ref" {
		return types.Typ[types.UnsafePointer]
	}
	if i := strings.Index(s, "."); i >= 0 {
		pn, tn := s[:i], s[i+1:]
		for _, imp := range pkg.Imports() {
			if imp.Name() == pn {
				if o := imp.Scope().Lookup(tn); o != nil {
					return o.Type()
				}
			}
		}
		return nil
	}
	if o := pkg.Scope().Lookup(s); o != nil {
		if _, ok := o.(*types.TypeName); ok {
			return o.Type()
		}
	}
	if o := types.Universe.Lookup(s); o != nil {
		if _, ok := o.(*types.TypeName); ok {
			return o.Type()
		}
	}
	return nil
}

func (c *EvalCtx) boolOf(e *Expr) string {
	v := c.eval(e)
	if v.K != KBool {
		c.fail("expected boolean: %s", e)
	}
	return v.S
}

func (c *EvalCtx) intOf(e *Expr) string {
	v := c.eval(e)
	if v.K != KInt {
		c.fail("expected integer-like value: %s (kind %d)", e, v.K)
	}
	return v.S
}

// mapHandle describes a map-like object: Go map reference, ghost map field or sync.Map view.
type mapHandle struct {
	fam    string
	ref    string
	kt, vt types.Type
	sync   bool
}

func (c *EvalCtx) mapHandleOf(v *V, e *Expr) *mapHandle {
	if v.K == KMapH {
		return v.L2
	}
	if v.K == KInt && v.T != nil {
		if m, ok := v.T.Underlying().(*types.Map); ok {
			return &mapHandle{fam: "map:" + c.run.eng.tnFor(v.T.Underlying(), c.pkg), ref: v.S, kt: m.Key(), vt: m.Elem()}
		}
	}
	c.fail("not a map: %s", e)
	return nil
}

func (c *EvalCtx) keyTerm(k *V, e *Expr) string {
	switch k.K {
	case KInt:
		return k.S
	case KIface:
		return k.Val
	}
	c.fail("unsupported map key: %s", e)
	return ""
}

func (s *State) mapHas(h *mapHandle, key string) string {
	dom := s.comp(h.fam+"#dom", 2, "Bool")
	if nilMapAxiom && !s.mapAx["nil/"+dom] {
		// the nil map has no keys (reference 0 is never an object; writes through it panic)
		s.mapAx["nil/"+dom] = true
		s.assume("(forall ((k Int)) (! (not (select (select " + dom + " 0) k)) :pattern ((select (select " + dom + " 0) k))))")
	}
	return selN(dom, []string{h.ref, key})
}

func (s *State) mapGet(h *mapHandle, key string) *V {
	if h.sync {
		// value stored as interface; the view exposes the value part at its declared type
		switch s.run.eng.shape(h.vt) {
		case KInt:
			return vInt(selN(s.comp(h.fam+"#val", 2, "Int"), []string{h.ref, key}), h.vt)
		}
		panic("sync.Map view with non-scalar value type")
	}
	if st, ok := h.vt.Underlying().(*types.Struct); ok && st.NumFields() == 0 {
		return &V{K: KStruct, T: h.vt}
	}
	return s.readAt(h.fam+"#val", []string{h.ref, key}, h.vt)
}

// mapZeroAxiom: absent keys read as the zero value (well-formedness of map components: maintained by every
// write/delete of the executor and assumed for the component versions in scope).
func (s *State) mapZeroAxiom(h *mapHandle) {
	type lf struct{ leaf, sort, zero string }
	var leafs []lf
	if h.sync {
		leafs = []lf{{h.fam + "#val", "Int", "0"}, {h.fam + "#vtag", "Int", "0"}}
	} else {
		switch s.run.eng.shape(h.vt) {
		case KInt:
			leafs = []lf{{h.fam + "#val", "Int", "0"}}
		case KBool:
			leafs = []lf{{h.fam + "#val", "Bool", "false"}}
		case KIface:
			leafs = []lf{{h.fam + "#val#tag", "Int", "0"}, {h.fam + "#val#val", "Int", "0"}}
		case KSlice:
			leafs = []lf{{h.fam + "#val#arr", "Int", "0"}, {h.fam + "#val#off", "Int", "0"}, {h.fam + "#val#len", "Int", "0"}, {h.fam + "#val#cap", "Int", "0"}}
		}
	}
	dom := s.comp(h.fam+"#dom", 2, "Bool")
	for _, l := range leafs {
		val := s.comp(l.leaf, 2, l.sort)
		key := dom + "/" + val
		if s.mapAx[key] {
			continue
		}
		s.mapAx[key] = true
		s.assume("(forall ((m Int) (k Int)) (! (=> (not (select (select " + dom + " m) k)) (= (select (select " + val + " m) k) " + l.zero + ")) :pattern ((select (select " + val + " m) k))))")
	}
}

func (c *EvalCtx) eval(e *Expr) *V {
	st := c.st
	eng := c.run.eng
	switch e.Op {
	case "int":
		return vInt(sInt(e.Int), types.Typ[types.Int])
	case "str":
		return vInt(eng.strID(e.Str), types.Typ[types.String])
	case "bool":
		if e.Bool {
			return vBool("true")
		}
		return vBool("false")
	case "nil":
		return &V{K: KNil}
	case "id":
		return c.evalIdent(e)
	case "old":
		if c.old == nil {
			c.fail("old() not available here")
		}
		n := *c
		n.st = c.old.viewFor(c.st)
		if c.oldVars != nil {
			n.vars = make(map[string]*V, len(c.vars)+len(c.oldVars))
			for k, x := range c.vars {
				n.vars[k] = x
			}
			for k, x := range c.oldVars {
				n.vars[k] = x
			}
		}
		return n.eval(e.Args[0])
	case "entry":
		// entry(e): e evaluated in the state in which the function under verification was entered
		if c.run.entry == nil {
			c.fail("entry() not available here")
		}
		{
			n := *c
			n.st = c.run.entry.viewFor(c.st)
			n.vars = make(map[string]*V, len(c.vars)+len(c.run.entry.params))
			for k, x := range c.vars {
				n.vars[k] = x
			}
			for k, x := range c.run.entry.params {
				n.vars[k] = x
			}
			return n.eval(e.Args[0])
		}
	case "field":
		base := c.eval(e.Args[0])
		return c.evalField(base, e.Name, e)
	case "index":
		base := c.eval(e.Args[0])
		idx := c.eval(e.Args[1])
		switch {
		case base.K == KSlice:
			et := base.T.Underlying().(*types.Slice).Elem()
			return st.load(st.elemLoc(base.Arr, st.ixTerm(base.Off, idx.S), et))
		case base.K == KMapH || (base.K == KInt && isMapType(base.T)):
			h := c.mapHandleOf(base, e)
			k := c.keyTerm(c.coerceTo(idx, h.kt), e)
			st.mapZeroAxiom(h)
			return st.mapGet(h, k)
		case base.K == KInt && base.Fn == nil && base.T != nil && isArrSort(base):
			return nil
		}
		c.fail("cannot index %s", e.Args[0])
	case "slice":
		base := c.eval(e.Args[0])
		if base.K != KSlice {
			c.fail("cannot slice %s", e.Args[0])
		}
		lo, hi := "0", base.Len
		if e.Args[1] != nil {
			lo = c.intOf(e.Args[1])
		}
		if e.Args[2] != nil {
			hi = c.intOf(e.Args[2])
		}
		return &V{K: KSlice, T: base.T, Arr: base.Arr, Off: "(+ " + base.Off + " " + lo + ")", Len: "(- " + hi + " " + lo + ")", Cap: "(- " + base.Cap + " " + lo + ")"}
	case "un":
		a := c.eval(e.Args[0])
		switch e.Name {
		case "!":
			if a.K != KBool {
				c.fail("! on non-boolean %s", e.Args[0])
			}
			return vBool(sNot(a.S))
		case "-":
			return vInt("(- "+a.S+")", a.T)
		}
	case "bin":
		return c.evalBin(e)
	case "ite":
		cond := c.boolOf(e.Args[0])
		a := c.eval(e.Args[1])
		b := c.eval(e.Args[2])
		a, b = c.coercePair(a, b)
		return c.iteV(cond, a, b)
	case "forall", "exists":
		n := c
		var binds []string
		for _, bv := range e.Bound {
			t := c.resolveType(bv.Type)
			if t == nil {
				c.fail("unknown type %q for bound variable %s", bv.Type, bv.Name)
			}
			name := mangle("q:" + bv.Name)
			var v *V
			switch eng.shape(t) {
			case KInt:
				v = vInt(name, t)
				binds = append(binds, "("+name+" Int)")
			case KBool:
				v = &V{K: KBool, T: t, S: name}
				binds = append(binds, "("+name+" Bool)")
			default:
				c.fail("bound variable %s must be scalar", bv.Name)
			}
			n = n.with(bv.Name, v)
		}
		// side assumptions made while evaluating the body (type ranges) are dropped into a scratch state
		scratch := n.st.clone()
		n2 := *n
		n2.st = scratch
		if n.old != nil {
			n2.old = n.old
		}
		body := n2.boolOf(e.Args[0])
		if len(e.Trig) > 0 {
			var pats []string
			for _, grp := range e.Trig {
				var ts []string
				for _, te := range grp {
					tv := n2.eval(te)
					for _, l := range leavesSorted(tv) {
						ts = append(ts, l[0])
					}
				}
				pats = append(pats, ":pattern ("+strings.Join(ts, " ")+")")
			}
			return vBool("(" + e.Op + " (" + strings.Join(binds, " ") + ") (! " + body + " " + strings.Join(pats, " ") + "))")
		}
		return vBool("(" + e.Op + " (" + strings.Join(binds, " ") + ") " + body + ")")
	case "typeis":
		a := c.eval(e.Args[0])
		if a.K != KIface {
			c.fail("typeis on non-interface %s", e.Args[0])
		}
		t := c.resolveType(e.Str)
		if t == nil {
			c.fail("unknown type %q", e.Str)
		}
		return vBool(c.run.typeTest(a, t))
	case "call":
		return c.evalCall(e)
	}
	c.fail("cannot evaluate %s", e)
	return nil
}

func isArrSort(v *V) bool { return false }

func isMapType(t types.Type) bool {
	if t == nil {
		return false
	}
	_, ok := t.Underlying().(*types.Map)
	return ok
}

func (c *EvalCtx) iteV(cond string, a, b *V) *V {
	if cond == "true" {
		return a
	}
	if cond == "false" {
		return b
	}
	switch a.K {
	case KInt:
		return vInt(sIte(cond, a.S, b.S), a.T)
	case KBool:
		return &V{K: KBool, T: a.T, S: sIte(cond, a.S, b.S)}
	case KIface:
		return &V{K: KIface, T: a.T, Tag: sIte(cond, a.Tag, b.Tag), Val: sIte(cond, a.Val, b.Val)}
	case KSlice:
		return &V{K: KSlice, T: a.T, Arr: sIte(cond, a.Arr, b.Arr), Off: sIte(cond, a.Off, b.Off), Len: sIte(cond, a.Len, b.Len), Cap: sIte(cond, a.Cap, b.Cap)}
	case KStruct, KTuple:
		out := &V{K: a.K, T: a.T}
		for i := range a.F {
			out.F = append(out.F, c.iteV(cond, a.F[i], b.F[i]))
		}
		return out
	}
	c.fail("ite on unsupported kind")
	return nil
}

func (c *EvalCtx) coerceTo(v *V, t types.Type) *V {
	if v.K == KNil {
		return c.st.zero(t)
	}
	return v
}

func (c *EvalCtx) coercePair(a, b *V) (*V, *V) {
	if a.K == KNil && b.K == KNil {
		return vInt("0", nil), vInt("0", nil)
	}
	if a.K == KNil {
		if b.T == nil {
			return vInt("0", nil), b
		}
		return c.st.zero(b.T), b
	}
	if b.K == KNil {
		if a.T == nil {
			return a, vInt("0", nil)
		}
		return a, c.st.zero(a.T)
	}
	// allow comparing an interface with a concrete (boxed scalar) value? not supported
	return a, b
}

func (c *EvalCtx) evalBin(e *Expr) *V {
	op := e.Name
	switch op {
	case "&&", "||", "==>", "<==>":
		a := c.boolOf(e.Args[0])
		// short-circuit structure is irrelevant symbolically
		b := c.boolOf(e.Args[1])
		switch op {
		case "&&":
			return vBool(sAnd(a, b))
		case "||":
			return vBool(sOr(a, b))
		case "==>":
			return vBool(sImp(a, b))
		default:
			return vBool(sEq(a, b))
		}
	case "in":
		k := c.eval(e.Args[0])
		m := c.eval(e.Args[1])
		if m.K == KSlice {
			// membership in a slice: exists index
			et := m.T.Underlying().(*types.Slice).Elem()
			q := mangle("q:in")
			el := c.st.load(c.st.elemLoc(m.Arr, c.st.ixTerm(m.Off, q), et))
			k = c.coerceTo(k, et)
			return vBool("(exists ((" + q + " Int)) (and (<= 0 " + q + ") (< " + q + " " + m.Len + ") " + c.st.eqV(el, k) + "))")
		}
		h := c.mapHandleOf(m, e.Args[1])
		return vBool(c.st.mapHas(h, c.keyTerm(c.coerceTo(k, h.kt), e.Args[0])))
	}
	a := c.eval(e.Args[0])
	b := c.eval(e.Args[1])
	switch op {
	case "==", "!=":
		a, b = c.coercePair(a, b)
		if a.K != b.K {
			c.fail("comparison of different kinds in %s", e)
		}
		t := c.st.eqV(a, b)
		if op == "!=" {
			t = sNot(t)
		}
		return vBool(t)
	case "<", "<=", ">", ">=":
		return vBool("(" + op + " " + a.S + " " + b.S + ")")
	case "+":
		if a.T != nil {
			if bt, ok := a.T.Underlying().(*types.Basic); ok && bt.Info()&types.IsString != 0 {
				c.run.eng.declare("(declare-fun strcat (Int Int) Int)")
				return vInt("(strcat "+a.S+" "+b.S+")", a.T)
			}
		}
		return vInt("(+ "+a.S+" "+b.S+")", a.T)
	case "-", "*":
		return vInt("("+op+" "+a.S+" "+b.S+")", a.T)
	case "/":
		return vInt("(div "+a.S+" "+b.S+")", a.T)
	case "%":
		return vInt("(mod "+a.S+" "+b.S+")", a.T)
	}
	c.fail("unknown operator %s", op)
	return nil
}

func (c *EvalCtx) evalIdent(e *Expr) *V {
	name := e.Name
	if v, ok := c.vars[name]; ok {
		return v
	}
	if v, ok := c.st.lets[name]; ok {
		return v
	}
	switch name {
	case "ev_n":
		return vInt(c.st.ghost["ev.n"], types.Typ[types.Int])
	}
	// locals of the function by source name (current value)
	if c.fn != nil {
		if v := c.localByName(name); v != nil {
			return v
		}
	}
	if o := c.pkg.Scope().Lookup(name); o != nil {
		switch o := o.(type) {
		case *types.Const:
			return c.constV(o.Val(), o.Type())
		case *types.Var:
			// package-level variable: box keyed by a global id
			g := c.run.globalRef(o)
			return c.st.load(&Loc{T: o.Type(), Comp: "box:" + c.run.eng.tnFor(o.Type(), c.pkg), Idx: []string{g}, Ref: g})
		}
	}
	// imported constants: pkg.Name is parsed as field access on id pkg; handled in evalField
	c.fail("unknown identifier %q", name)
	return nil
}

func (c *EvalCtx) constV(val constant.Value, t types.Type) *V {
	switch val.Kind() {
	case constant.Bool:
		if constant.BoolVal(val) {
			return &V{K: KBool, T: t, S: "true"}
		}
		return &V{K: KBool, T: t, S: "false"}
	case constant.String:
		return vInt(c.run.eng.strID(constant.StringVal(val)), t)
	case constant.Int:
		n, _ := constant.Int64Val(val)
		return vInt(sInt(n), t)
	}
	c.fail("unsupported constant")
	return nil
}

func (c *EvalCtx) localByName(name string) *V {
	var best *ssa.Alloc
	for _, b := range c.fn.Blocks {
		for _, ins := range b.Instrs {
			if a, ok := ins.(*ssa.Alloc); ok && a.Comment == name {
				if best == nil {
					best = a
				}
			}
		}
	}
	// parameters that are not address-taken are still Allocs in naive form; free variables are *T params
	if best == nil {
		for _, fv := range c.fn.FreeVars {
			if fv.Name() == name {
				p := c.st.regs[fv]
				if p == nil {
					return nil
				}
				return c.run.freeVarContent(c.st, fv, p)
			}
		}
		return nil
	}
	p := c.st.regs[best]
	if p == nil {
		// not yet allocated on this path: zero value
		return c.st.zero(best.Type().Underlying().(*types.Pointer).Elem())
	}
	return c.st.load(c.st.derefLoc(p))
}

func (c *EvalCtx) evalField(base *V, name string, e *Expr) *V {
	st := c.st
	r := c.run
	// package-qualified constant: pkg.Name
	if e.Args[0].Op == "id" {
		if _, bound := c.vars[e.Args[0].Name]; !bound {
			for _, imp := range c.pkg.Imports() {
				if imp.Name() == e.Args[0].Name {
					if o, ok := imp.Scope().Lookup(name).(*types.Const); ok {
						return c.constV(o.Val(), o.Type())
					}
				}
			}
		}
	}
	var structT types.Type
	var obj string
	switch {
	case base.K == KStruct:
		stt := r.structFields(base.T)
		for i := 0; i < stt.NumFields(); i++ {
			if stt.Field(i).Name() == name {
				return base.F[i]
			}
		}
		c.fail("no field %s in %s", name, base.T)
	case base.K == KInt && base.T != nil:
		if pt, ok := base.T.Underlying().(*types.Pointer); ok {
			structT = pt.Elem()
			obj = base.S
		}
	case base.K == KLoc && base.L.Obj != "":
		structT = base.L.T
		obj = base.L.Obj
	}
	if structT == nil {
		c.fail("cannot select field %s of %s", name, e.Args[0])
	}
	stt, ok := structT.Underlying().(*types.Struct)
	if !ok || r.eng.opaque(structT) {
		c.fail("type %s has no accessible fields (selecting %s)", structT, name)
	}
	// ghost fields declared in the contract file
	if td := c.typeDecl(structT); td != nil {
		if gt, ok := td.GhostFields[name]; ok {
			t := c.resolveType(gt)
			if t == nil {
				c.fail("cannot resolve ghost field type %q", gt)
			}
			fam := r.eng.tnFor(structT, c.pkg) + "." + name
			if m, ok := t.Underlying().(*types.Map); ok {
				return &V{K: KMapH, T: t, L2: &mapHandle{fam: fam, ref: obj, kt: m.Key(), vt: m.Elem()}}
			}
			return st.readAt(fam, []string{obj}, t)
		}
	}
	for i := 0; i < stt.NumFields(); i++ {
		if stt.Field(i).Name() == name {
			l := st.fieldLoc(obj, structT, i)
			if l.Obj != "" {
				// embedded non-opaque struct: yield a location value so further selection works
				return &V{K: KLoc, T: types.NewPointer(l.T), L: l}
			}
			if r.eng.opaque(l.T) && identityTypes[types.TypeString(l.T, nil)] {
				// embedded object with identity (locks, sync.Map, ...): expose the location
				return &V{K: KLoc, T: types.NewPointer(l.T), L: l}
			}
			return st.load(l)
		}
	}
	c.fail("no field %s in %s", name, structT)
	return nil
}

func (c *EvalCtx) typeDecl(t types.Type) *TypeDecl {
	n, ok := t.(*types.Named)
	if !ok {
		return nil
	}
	cs := c.run.eng.contracts[pkgPathOf(n)]
	if cs == nil {
		return nil
	}
	return cs.Types[n.Obj().Name()]
}

func pkgPathOf(n *types.Named) string {
	if n.Obj().Pkg() == nil {
		return ""
	}
	return n.Obj().Pkg().Path()
}

// refOf gives the identity of a location-like value (for held(), view(), ...).
func (c *EvalCtx) refOf(v *V, e *Expr) string {
	switch {
	case v.K == KLoc && v.L.Ref != "":
		return v.L.Ref
	case v.K == KInt:
		return v.S
	}
	c.fail("expression has no identity: %s", e)
	return ""
}

func (c *EvalCtx) evalCall(e *Expr) *V {
	st := c.st
	r := c.run
	eng := r.eng
	argc := func(n int) {
		if len(e.Args) != n {
			c.fail("%s expects %d arguments", e.Name, n)
		}
	}
	switch e.Name {
	case "len", "cap":
		argc(1)
		a := c.eval(e.Args[0])
		switch {
		case a.K == KSlice:
			if e.Name == "len" {
				return vInt(a.Len, types.Typ[types.Int])
			}
			return vInt(a.Cap, types.Typ[types.Int])
		case a.K == KMapH || isMapType(a.T):
			h := c.mapHandleOf(a, e.Args[0])
			return vInt(sSel(st.comp(h.fam+"#card", 1, "Int"), h.ref), types.Typ[types.Int])
		case a.K == KInt:
			return vInt(st.strLen(a.S), types.Typ[types.Int])
		}
		c.fail("len of unsupported value %s", e.Args[0])
	case "held":
		argc(1)
		ref := c.refOf(c.eval(e.Args[0]), e.Args[0])
		c.run.addLockCand(ref)
		return vInt(sSel(st.comp("held", 1, "Int"), ref), types.Typ[types.Int])
	case "acquisitions":
		// acquisitions(x.lock): how many times this lock has been acquired (ghost counter)
		argc(1)
		ref := c.refOf(c.eval(e.Args[0]), e.Args[0])
		return vInt(sSel(st.comp("lockacq", 1, "Int"), ref), types.Typ[types.Int])
	case "heldAt":
		// heldAt(x): lock state of the lock with identity x
		argc(1)
		return vInt(sSel(st.comp("held", 1, "Int"), c.intOf(e.Args[0])), types.Typ[types.Int])
	case "noLocksHeld":
		argc(0)
		return vBool("(forall ((l Int)) (! (= (select " + st.comp("held", 1, "Int") + " l) 0) :pattern ((select " + st.comp("held", 1, "Int") + " l))))")
	case "ref":
		argc(1)
		return vInt(c.refOf(c.eval(e.Args[0]), e.Args[0]), types.Typ[types.UnsafePointer])
	case "view":
		// view(x.m): the ghost map view of a sync.Map field declared with "type T syncmap m: K -> V"
		argc(1)
		if e.Args[0].Op != "field" {
			c.fail("view() expects a field expression")
		}
		ownerV := c.eval(e.Args[0].Args[0])
		var ownerT types.Type
		switch {
		case ownerV.K == KLoc:
			ownerT = ownerV.L.T
		case ownerV.K == KInt && ownerV.T != nil:
			if pt, ok := ownerV.T.Underlying().(*types.Pointer); ok {
				ownerT = pt.Elem()
			}
		}
		if ownerT == nil {
			c.fail("view(): cannot determine owner type of %s", e.Args[0])
		}
		td := c.typeDecl(ownerT)
		if td == nil {
			c.fail("view(): no syncmap declaration for %s", ownerT)
		}
		kv, ok := td.SyncMapViews[e.Args[0].Name]
		if !ok {
			c.fail("view(): field %s of %s is not declared syncmap", e.Args[0].Name, ownerT)
		}
		// resolve types in the owner's package
		op := ownerT.(*types.Named).Obj().Pkg()
		kt, vt := resolveTypeIn(op, kv[0]), resolveTypeIn(op, kv[1])
		if kt == nil || vt == nil {
			c.fail("view(): cannot resolve %v", kv)
		}
		ref := c.refOf(c.eval(e.Args[0]), e.Args[0])
		return &V{K: KMapH, L2: &mapHandle{fam: "syncmap", ref: ref, kt: kt, vt: vt, sync: true}}
	case "holdsType":
		// holdsType(x.m, key, "T"): the sync.Map entry for key holds a value of dynamic type T
		argc(3)
		{
			if e.Args[2].Op != "str" {
				c.fail("holdsType(x.m, key, \"Type\")")
			}
			ref := c.refOf(c.eval(e.Args[0]), e.Args[0])
			k := c.eval(e.Args[1])
			t := c.resolveType(e.Args[2].Str)
			if t == nil {
				c.fail("unknown type %q", e.Args[2].Str)
			}
			return vBool(sEq(selN(st.comp("syncmap#vtag", 2, "Int"), []string{ref, c.keyTerm(k, e.Args[1])}), eng.typeID(t)))
		}
	case "seen":
		// seen(n, k): key k has been visited by callback loop n
		argc(2)
		if e.Args[0].Op != "int" {
			c.fail("seen(n, k): n must be a literal")
		}
		t, ok := st.iterSeen[int(e.Args[0].Int)]
		if !ok {
			c.fail("seen(%d, ...) used outside that callback loop", e.Args[0].Int)
		}
		k := c.eval(e.Args[1])
		return vBool(sSel(t, c.keyTerm(k, e.Args[1])))
	case "ctxdone":
		argc(1)
		a := c.eval(e.Args[0])
		if a.K != KIface {
			c.fail("ctxdone expects a context")
		}
		return vBool(sSel(st.comp("ctxdone", 1, "Bool"), a.Val))
	case "ev_kind":
		argc(1)
		return vInt(sSel(st.comp("ev.kind", 1, "Int"), c.intOf(e.Args[0])), types.Typ[types.String])
	case "ev_a":
		argc(2)
		if e.Args[1].Op != "int" {
			c.fail("ev_a(i, j): j must be a literal")
		}
		return vInt(sSel(st.comp(fmt.Sprintf("ev.a%d", e.Args[1].Int), 1, "Int"), c.intOf(e.Args[0])), nil)
	case "calls":
		// calls("Iface.Method"): number of invocations of that interface method (or "fn:Type.field") so far
		argc(1)
		if e.Args[0].Op != "str" {
			c.fail("calls(\"Iface.Method\")")
		}
		nm := e.Args[0].Str
		if strings.Count(nm, ".") == 1 && !strings.HasPrefix(nm, "fn:") {
			nm = c.pkg.Name() + "." + nm
		}
		k := "call:" + nm
		if strings.HasPrefix(e.Args[0].Str, "fn:") {
			k = "callfn:" + strings.TrimPrefix(e.Args[0].Str, "fn:")
		}
		return vInt(sSel(st.comp("ncall", 1, "Int"), eng.strID(k)), types.Typ[types.Int])
	case "callsOn":
		// callsOn("Iface.Method", recv): invocations of the method on that receiver value so far
		argc(2)
		{
			if e.Args[0].Op != "str" {
				c.fail("callsOn(\"Iface.Method\", recv)")
			}
			nm := e.Args[0].Str
			if strings.Count(nm, ".") == 1 {
				nm = c.pkg.Name() + "." + nm
			}
			a := c.eval(e.Args[1])
			if a.K != KIface {
				c.fail("callsOn expects an interface receiver")
			}
			return vInt(selN(st.comp("ncallr", 2, "Int"), []string{eng.strID("call:" + nm), a.Val}), types.Typ[types.Int])
		}
	case "newCallsOn":
		// newCallsOn("Iface.Method", recv): invocations on that receiver since the pre-state (receiver evaluated now)
		argc(2)
		{
			if e.Args[0].Op != "str" {
				c.fail("newCallsOn(\"Iface.Method\", recv)")
			}
			if c.old == nil {
				c.fail("newCallsOn() needs a pre-state")
			}
			nm := e.Args[0].Str
			if strings.Count(nm, ".") == 1 {
				nm = c.pkg.Name() + "." + nm
			}
			a := c.eval(e.Args[1])
			if a.K != KIface {
				c.fail("newCallsOn expects an interface receiver")
			}
			id := eng.strID("call:" + nm)
			return vInt("(- "+selN(st.comp("ncallr", 2, "Int"), []string{id, a.Val})+" "+selN(c.old.comp("ncallr", 2, "Int"), []string{id, a.Val})+")", types.Typ[types.Int])
		}
	case "visited":
		// visited(k): key k has already been produced by the map range loop this invariant belongs to
		argc(1)
		{
			it, ok := c.vars["$iter"]
			if !ok {
				c.fail("visited() used outside a map range loop invariant")
			}
			k := c.eval(e.Args[0])
			return vBool(selN(st.comp("iter#visited", 2, "Bool"), []string{it.S, c.keyTerm(k, e.Args[0])}))
		}
	case "ranged":
		// ranged(): the map the enclosing map range loop iterates over
		argc(0)
		{
			it, ok := c.vars["$iter"]
			if !ok || it.L2 == nil {
				c.fail("ranged() used outside a map range loop invariant")
			}
			return &V{K: KMapH, L2: it.L2}
		}
	case "produced":
		// produced(): number of keys the enclosing map range loop has produced so far
		argc(0)
		{
			it, ok := c.vars["$iter"]
			if !ok {
				c.fail("produced() used outside a map range loop invariant")
			}
			return vInt(sSel(st.comp("iter#count", 1, "Int"), it.S), types.Typ[types.Int])
		}
	case "received":
		// received(ch): number of values successfully received from channel ch by this activation tree
		argc(1)
		return vInt(sSel(st.comp("nrecv", 1, "Int"), c.intOf(e.Args[0])), types.Typ[types.Int])
	case "callsTo":
		// callsTo("(*T).f"): number of calls (by contract) to that function of this package so far
		argc(1)
		if e.Args[0].Op != "str" {
			c.fail("callsTo(\"func\")")
		}
		return vInt(sSel(st.comp("ncall", 1, "Int"), eng.strID("fn:"+e.Args[0].Str)), types.Typ[types.Int])
	case "events":
		// events("kind"): number of trace events of that kind emitted so far
		argc(1)
		if e.Args[0].Op != "str" {
			c.fail("events(\"kind\")")
		}
		return vInt(sSel(st.comp("ncall", 1, "Int"), eng.strID(e.Args[0].Str)), types.Typ[types.Int])
	case "cbfree":
		// no lock declared callback_free is held
		argc(0)
		held := st.comp("held", 1, "Int")
		var cs []string
		for _, pp := range sortedKeys(eng.contracts) {
			set := eng.contracts[pp]
			for _, tname := range sortedKeys(set.Types) {
				td := set.Types[tname]
				for _, lf := range sortedKeys(td.CallbackFree) {
					o := c.run.typeByName(pp, tname)
					if o == nil {
						continue
					}
					_ = c.run.fa(o, lf, "0")
					id := eng.faIDs[mangle("fa:"+c.run.tn(o)+"."+lf)]
					cs = append(cs, fmt.Sprintf("(forall ((l Int)) (! (=> (= (objkind l) %d) (= (select %s l) 0)) :pattern ((select %s l))))", id, held, held))
				}
			}
		}
		return vBool(sAnd(cs...))
	case "ctxErr":
		argc(1)
		{
			a := c.eval(e.Args[0])
			if a.K != KIface {
				c.fail("ctxErr expects a context")
			}
			eng.declare("(declare-fun ctxerr (Int) Int)")
			return &V{K: KIface, T: types.Universe.Lookup("error").Type(), Tag: eng.typeIDByName("errtype:context"), Val: "(ctxerr " + a.Val + ")"}
		}
	case "held_errors":
		// held_errors(p): how many errors the *multierror.Error p holds (ghost of the library model)
		argc(1)
		return vInt(sSel(st.comp("multierror#n", 1, "Int"), c.intOf(e.Args[0])), types.Typ[types.Int])
	case "arr":
		// arr(s): identity of the backing array of slice s
		argc(1)
		{
			a := c.eval(e.Args[0])
			if a.K != KSlice {
				c.fail("arr() expects a slice")
			}
			return vInt(a.Arr, types.Typ[types.UnsafePointer])
		}
	case "uf":
		// uf("name", args...): the uninterpreted function a library model uses for that operation (Int-valued)
		if len(e.Args) < 1 || e.Args[0].Op != "str" {
			c.fail("uf(\"name\", args...)")
		}
		{
			var ts, sorts []string
			for _, a := range e.Args[1:] {
				v := c.eval(a)
				for _, l := range leavesSorted(v) {
					ts = append(ts, l[0])
					sorts = append(sorts, l[1])
				}
			}
			fn := mangle("uf:" + e.Args[0].Str)
			eng.declare("(declare-fun " + fn + " (" + strings.Join(sorts, " ") + ") Int)")
			return vInt(sApp(fn, ts...), types.Typ[types.String])
		}
	case "ufbool":
		if len(e.Args) < 1 || e.Args[0].Op != "str" {
			c.fail("ufbool(\"name\", args...)")
		}
		{
			var ts, sorts []string
			for _, a := range e.Args[1:] {
				v := c.eval(a)
				for _, l := range leavesSorted(v) {
					ts = append(ts, l[0])
					sorts = append(sorts, l[1])
				}
			}
			fn := mangle("uf:" + e.Args[0].Str)
			eng.declare("(declare-fun " + fn + " (" + strings.Join(sorts, " ") + ") Bool)")
			return vBool(sApp(fn, ts...))
		}
	case "sprintf1":
		// sprintf1(format, s): fmt.Sprintf(format, s) for one string argument (model function)
		argc(2)
		{
			f, a := c.intOf(e.Args[0]), c.intOf(e.Args[1])
			eng.declare("(declare-fun |uf:fmt.Sprintf1| (Int Int Int) Int)")
			return vInt("(|uf:fmt.Sprintf1| "+f+" "+eng.typeID(types.Typ[types.String])+" "+a+")", types.Typ[types.String])
		}
	case "strAt":
		// strAt(arr, off, k): k-th element of the []string with that backing array and offset (current state)
		argc(3)
		{
			a, o, k := c.intOf(e.Args[0]), c.intOf(e.Args[1]), c.intOf(e.Args[2])
			return st.load(st.elemLoc(a, st.ixTerm(o, k), types.Typ[types.String]))
		}
	case "bufBytes":
		// bufBytes(b): the slice a *bytes.Buffer's Bytes() returns now
		argc(1)
		{
			id := c.refOf(c.eval(e.Args[0]), e.Args[0])
			arr := sSel(st.comp("buf#arr", 1, "Int"), id)
			eng.declare("(declare-fun |uf:content.len| (Int) Int)")
			ln := "(|uf:content.len| " + sSel(st.comp("bytes#content", 1, "Int"), arr) + ")"
			return &V{K: KSlice, T: types.NewSlice(types.Typ[types.Uint8]), Arr: arr, Off: "0", Len: ln, Cap: ln}
		}
	case "encWriter":
		argc(1)
		return vInt(sSel(st.comp("enc#w", 1, "Int"), c.intOf(e.Args[0])), types.Typ[types.UnsafePointer])
	case "encIndent":
		argc(1)
		return vInt(sSel(st.comp("enc#indent", 1, "Int"), c.intOf(e.Args[0])), types.Typ[types.String])
	case "content":
		// content(s): abstract content of the byte array behind slice s (as produced by the bytes.Buffer / json models)
		argc(1)
		{
			a := c.eval(e.Args[0])
			if a.K != KSlice {
				c.fail("content() expects a []byte")
			}
			return vInt(sSel(st.comp("bytes#content", 1, "Int"), a.Arr), types.Typ[types.String])
		}
	case "listLen":
		argc(1)
		return vInt(sSel(st.comp("list#len", 1, "Int"), c.intOf(e.Args[0])), types.Typ[types.Int])
	case "listAt":
		// listAt(l, i): i-th element of the list (ghost sequence)
		argc(2)
		{
			t := c.resolveType("*list.Element")
			return vInt(selN(st.comp("list#seq", 2, "Int"), []string{c.intOf(e.Args[0]), c.intOf(e.Args[1])}), t)
		}
	case "elemList":
		argc(1)
		return vInt(sSel(st.comp("listel#in", 1, "Int"), c.intOf(e.Args[0])), c.resolveType("*list.List"))
	case "elemIdx":
		argc(1)
		return vInt(sSel(st.comp("listel#idx", 1, "Int"), c.intOf(e.Args[0])), types.Typ[types.Int])
	case "errOf":
		// errOf(tag, val): the error value with that dynamic type tag and payload
		argc(2)
		return &V{K: KIface, T: types.Universe.Lookup("error").Type(), Tag: c.intOf(e.Args[0]), Val: c.intOf(e.Args[1])}
	case "asIface":
		// asIface(p): the interface value holding the (pointer) value p
		argc(1)
		{
			a := c.eval(e.Args[0])
			if a.K != KInt || a.T == nil {
				c.fail("asIface expects a typed pointer value")
			}
			return &V{K: KIface, T: types.Universe.Lookup("error").Type(), Tag: eng.typeID(a.T), Val: a.S}
		}
	case "tagImplements":
		// tagImplements(tag, "Iface"): values with that dynamic type tag implement the interface
		argc(2)
		{
			if e.Args[1].Op != "str" {
				c.fail("tagImplements(tag, \"Iface\")")
			}
			t := c.resolveType(e.Args[1].Str)
			if t == nil {
				c.fail("unknown type %q", e.Args[1].Str)
			}
			return vBool(c.run.typeTest(&V{K: KIface, Tag: c.intOf(e.Args[0]), Val: "0"}, t))
		}
	case "ptrAs":
		// ptrAs(x, "*T"): the integer/reference x viewed as a pointer of that type
		argc(2)
		{
			if e.Args[1].Op != "str" {
				c.fail("ptrAs(x, \"*T\")")
			}
			t := c.resolveType(e.Args[1].Str)
			if t == nil {
				c.fail("unknown type %q", e.Args[1].Str)
			}
			return vInt(c.intOf(e.Args[0]), t)
		}
	case "typeid":
		// typeid("T"): the dynamic-type tag of Go type T
		argc(1)
		{
			if e.Args[0].Op != "str" {
				c.fail("typeid(\"T\")")
			}
			t := c.resolveType(e.Args[0].Str)
			if t == nil {
				c.fail("unknown type %q", e.Args[0].Str)
			}
			return vInt(eng.typeID(t), nil)
		}
	case "tagof":
		argc(1)
		a := c.eval(e.Args[0])
		if a.K != KIface {
			c.fail("tagof expects an interface value")
		}
		return vInt(a.Tag, nil)
	case "valof":
		argc(1)
		a := c.eval(e.Args[0])
		if a.K != KIface {
			c.fail("valof expects an interface value")
		}
		return vInt(a.Val, nil)
	case "nodeType":
		// nodeType(n): the (assumed deterministic) result of n.Type() for a Node interface value
		argc(1)
		a := c.eval(e.Args[0])
		if a.K != KIface {
			c.fail("nodeType expects an interface value")
		}
		eng.declare("(declare-fun |pure:Node.Type| (Int Int) Int)")
		return vInt("(|pure:Node.Type| "+a.Tag+" "+a.Val+")", c.resolveType("NodeType"))
	case "purecall":
		// purecall("Iface.Method", recv): result of a method declared pure on its receiver
		if len(e.Args) < 2 || e.Args[0].Op != "str" {
			c.fail("purecall(\"Iface.Method\", recv)")
		}
		a := c.eval(e.Args[1])
		fn := mangle("pure:" + e.Args[0].Str)
		eng.declare("(declare-fun " + fn + " (Int Int) Int)")
		if a.K != KIface {
			c.fail("purecall expects an interface receiver")
		}
		if len(e.Args) == 3 && e.Args[2].Op == "str" && e.Args[2].Str == "iface" {
			fnt := mangle("pure:" + e.Args[0].Str + "#tag")
			eng.declare("(declare-fun " + fnt + " (Int Int) Int)")
			return &V{K: KIface, T: types.NewInterfaceType(nil, nil), Tag: "(" + fnt + " " + a.Tag + " " + a.Val + ")", Val: "(" + fn + " " + a.Tag + " " + a.Val + ")"}
		}
		return vInt("("+fn+" "+a.Tag+" "+a.Val+")", types.Typ[types.String])
	case "wraps":
		argc(2)
		a, b := c.eval(e.Args[0]), c.eval(e.Args[1])
		if a.K != KIface || b.K != KIface {
			c.fail("wraps expects two errors")
		}
		eng.declare("(declare-fun wraps (Int Int Int Int) Bool)")
		return vBool("(wraps " + a.Tag + " " + a.Val + " " + b.Tag + " " + b.Val + ")")
	case "int":
		argc(1)
		a := c.eval(e.Args[0])
		return vInt(a.S, types.Typ[types.Int])
	case "strcat":
		argc(2)
		eng.declare("(declare-fun strcat (Int Int) Int)")
		return vInt("(strcat "+c.intOf(e.Args[0])+" "+c.intOf(e.Args[1])+")", types.Typ[types.String])
	case "allocated":
		argc(1)
		return vBool("(< " + c.intOf(e.Args[0]) + " " + st.ghost["alloc"] + ")")
	case "fresh":
		// fresh(p): p was allocated during this call
		argc(1)
		if c.old == nil {
			c.fail("fresh() needs a pre-state")
		}
		p := c.intOf(e.Args[0])
		return vBool(sAnd("(>= "+p+" "+c.old.ghost["alloc"]+")", "(< "+p+" "+st.ghost["alloc"]+")"))
	case "onlychanged":
		// onlychanged("Fam", i1, i2, ...): every row of the family except the listed first-level indices is as in the pre-state
		if len(e.Args) < 1 || e.Args[0].Op != "str" {
			c.fail("onlychanged(\"Fam\", idx...)")
		}
		if c.old == nil {
			c.fail("onlychanged() needs a pre-state")
		}
		fam := e.Args[0].Str
		var idx []string
		for _, a := range e.Args[1:] {
			idx = append(idx, c.refOf(c.eval(a), a))
		}
		var cs []string
		for _, leaf := range sortedKeys(eng.compSort) {
			if leaf == fam || strings.HasPrefix(leaf, fam+"#") {
				lv, ls := sortLevels(eng.compSort[leaf])
				x := mangle("q:x")
				var ne []string
				for _, i := range idx {
					ne = append(ne, sNot(sEq(x, i)))
				}
				nw, od := st.comp(leaf, lv, ls), c.old.comp(leaf, lv, ls)
				cs = append(cs, "(forall (("+x+" Int)) (! (=> "+sAnd(ne...)+" (= (select "+nw+" "+x+") (select "+od+" "+x+"))) :pattern ((select "+nw+" "+x+"))))")
			}
		}
		return vBool(sAnd(cs...))
	case "oldobjects":
		// oldobjects("Fam"): rows of the family belonging to references that existed in the pre-state are unchanged
		argc(1)
		if e.Args[0].Op != "str" {
			c.fail("oldobjects(\"Fam\")")
		}
		if c.old == nil {
			c.fail("oldobjects() needs a pre-state")
		}
		{
			fam := e.Args[0].Str
			c.registerMapLeaves(fam)
			var cs []string
			for _, leaf := range sortedKeys(eng.compSort) {
				if leaf == fam || strings.HasPrefix(leaf, fam+"#") {
					lv, ls := sortLevels(eng.compSort[leaf])
					x := mangle("q:x")
					nw, od := st.comp(leaf, lv, ls), c.old.comp(leaf, lv, ls)
					cs = append(cs, "(forall (("+x+" Int)) (! (=> (< "+x+" "+c.old.ghost["alloc"]+") (= (select "+nw+" "+x+") (select "+od+" "+x+"))) :pattern ((select "+nw+" "+x+"))))")
				}
			}
			return vBool(sAnd(cs...))
		}
	case "failedCalls":
		// failedCalls("callee"): number of calls made directly by this activation to callee (named as in atcall
		// anchors) that returned a non-nil error
		argc(1)
		if e.Args[0].Op != "str" {
			c.fail("failedCalls(\"callee\")")
		}
		if c.foreign {
			// a callee's own count is not visible to its caller
			return vInt(c.run.fresh("callee.fail", "Int"), types.Typ[types.Int])
		}
		{
			found := false
			for _, k := range c.run.failKeys() {
				if k == e.Args[0].Str {
					found = true
				}
			}
			if !found {
				// no call site (any more): no call of it can have failed. Not an evaluation error: a change that
				// removes the call is judged by the clauses that say what the call was needed for.
				c.run.noteOnce("failedCalls(" + e.Args[0].Str + "): no such call site in " + c.run.relName)
				return vInt("0", types.Typ[types.Int])
			}
			if t, ok := st.ghost["fail:"+e.Args[0].Str]; ok {
				return vInt(t, types.Typ[types.Int])
			}
			return vInt("0", types.Typ[types.Int])
		}
	case "prevcallarg":
		// prevcallarg("callee", i): the i-th actual argument (receiver first) of the most recent direct call to
		// callee made by this activation on this path (unknown across loop heads and cut points)
		argc(2)
		if e.Args[0].Op != "str" || e.Args[1].Op != "int" {
			c.fail("prevcallarg(\"callee\", i)")
		}
		{
			as, ok := st.lastArgs[e.Args[0].Str]
			if !ok {
				c.fail("prevcallarg: no earlier call of %s on this path", e.Args[0].Str)
			}
			i := int(e.Args[1].Int)
			if i < 0 || i >= len(as) {
				c.fail("prevcallarg: %s has no argument %d", e.Args[0].Str, i)
			}
			return as[i]
		}
	case "callarg":
		// callarg(i): the i-th actual argument (receiver first) of the call an atcall clause is anchored at
		argc(1)
		if e.Args[0].Op != "int" {
			c.fail("callarg(i): i must be a literal")
		}
		{
			v, ok := c.vars[fmt.Sprintf("$arg%d", e.Args[0].Int)]
			if !ok {
				c.fail("callarg(%d): no such argument here", e.Args[0].Int)
			}
			return v
		}
	case "oldlocks":
		// oldlocks(): lock state (held, acquisition counters) of every lock that existed in the pre-state is unchanged;
		// a lock embedded in a struct is as old as the struct
		if len(e.Args) > 1 || (len(e.Args) == 1 && e.Args[0].Op != "str") {
			c.fail("oldlocks() or oldlocks(\"held\")")
		}
		if c.old == nil {
			c.fail("oldlocks() needs a pre-state")
		}
		{
			var cs []string
			a0 := c.old.ghost["alloc"]
			leaves := []string{"held", "lockacq"}
			if len(e.Args) == 1 {
				leaves = []string{e.Args[0].Str}
			}
			for _, leaf := range leaves {
				x := mangle("q:l")
				nw, od := st.comp(leaf, 1, "Int"), c.old.comp(leaf, 1, "Int")
				isOld := "(ite (= (objkind " + x + ") 0) (< " + x + " " + a0 + ") (< (objowner " + x + ") " + a0 + "))"
				cs = append(cs, "(forall (("+x+" Int)) (! (=> "+isOld+" (= (select "+nw+" "+x+") (select "+od+" "+x+"))) :pattern ((select "+nw+" "+x+"))))")
			}
			return vBool(sAnd(cs...))
		}
	case "unchanged":
		// unchanged(comp): heap component family identical to the pre-state
		argc(1)
		if e.Args[0].Op != "str" {
			c.fail("unchanged(\"Type.field\")")
		}
		if c.old == nil {
			c.fail("unchanged() needs a pre-state")
		}
		var cs []string
		fam := e.Args[0].Str
		c.registerMapLeaves(fam)
		for leaf, sort := range eng.compSort {
			if leaf == fam || strings.HasPrefix(leaf, fam+"#") {
				lv, ls := sortLevels(sort)
				cs = append(cs, sEq(st.comp(leaf, lv, ls), c.old.comp(leaf, lv, ls)))
			}
		}
		return vBool(sAnd(cs...))
	}
	// user spec functions
	if sf, ok := c.cs.Pures[e.Name]; ok {
		if len(sf.Params) != len(e.Args) {
			c.fail("%s expects %d arguments", e.Name, len(sf.Params))
		}
		var args []*V
		for i, a := range e.Args {
			v := c.eval(a)
			pt := c.resolveType(sf.Params[i].Type)
			if pt != nil {
				v = c.coerceTo(v, pt)
			}
			args = append(args, v)
		}
		if sf.Body != nil {
			n := &EvalCtx{run: c.run, st: c.st, old: c.old, vars: map[string]*V{}, fn: nil, pkg: c.pkg, cs: c.cs, what: c.what + " in " + sf.Name}
			for i, p := range sf.Params {
				n.vars[p.Name] = args[i]
			}
			return n.eval(sf.Body)
		}
		// uninterpreted
		var sorts, terms []string
		for _, a := range args {
			for _, l := range leavesSorted(a) {
				terms = append(terms, l[0])
				sorts = append(sorts, l[1])
			}
		}
		rt := c.resolveType(sf.Ret)
		rs := "Int"
		if sf.Ret == "bool" {
			rs = "Bool"
		}
		fn := mangle("spec:" + e.Name)
		eng.declare("(declare-fun " + fn + " (" + strings.Join(sorts, " ") + ") " + rs + ")")
		if rs == "Bool" {
			return vBool(sApp(fn, terms...))
		}
		return vInt(sApp(fn, terms...), rt)
	}
	c.fail("unknown function %s", e.Name)
	return nil
}

func sortLevels(sort string) (int, string) {
	lv := strings.Count(sort, "(Array Int")
	leaf := "Int"
	if strings.Contains(sort, "Bool") {
		leaf = "Bool"
	}
	return lv, leaf
}

// leavesSorted returns (term, sort) pairs
func leavesSorted(v *V) [][2]string {
	switch v.K {
	case KInt:
		return [][2]string{{v.S, "Int"}}
	case KBool:
		return [][2]string{{v.S, "Bool"}}
	case KIface:
		return [][2]string{{v.Tag, "Int"}, {v.Val, "Int"}}
	case KSlice:
		return [][2]string{{v.Arr, "Int"}, {v.Off, "Int"}, {v.Len, "Int"}, {v.Cap, "Int"}}
	case KStruct, KTuple:
		var o [][2]string
		for _, f := range v.F {
			o = append(o, leavesSorted(f)...)
		}
		return o
	case KLoc:
		if v.L.Ref != "" {
			return [][2]string{{v.L.Ref, "Int"}}
		}
	case KNil:
		return [][2]string{{"0", "Int"}}
	}
	return nil
}

func (s *State) strLen(t string) string {
	s.run.eng.declare("(declare-fun strlen (Int) Int)")
	l := "(strlen " + t + ")"
	s.assume(sAnd("(>= "+l+" 0)", sImp(sEq(l, "0"), sEq(t, "0"))))
	return l
}

func (r *FnRun) globalRef(o *types.Var) string {
	name := mangle("global:" + o.Pkg().Path() + "." + o.Name())
	r.eng.declare("(declare-const " + name + " Int)")
	return name
}

// typeTest yields the condition under which interface value a has dynamic type t (concrete) or implements t (interface).
func (r *FnRun) typeTest(a *V, t types.Type) string {
	eng := r.eng
	if it, ok := t.Underlying().(*types.Interface); ok {
		if it.NumMethods() == 0 {
			return sNot(sEq(a.Tag, "0"))
		}
		fn := mangle("impl:" + types.TypeString(t, nil))
		eng.declare("(declare-fun " + fn + " (Int) Bool)")
		eng.declare("(assert (not (" + fn + " 0)))")
		eng.noteIface(t, fn)
		return "(" + fn + " " + a.Tag + ")"
	}
	id := eng.typeID(t)
	return sEq(a.Tag, id)
}

// noteIface records implements-facts for all concrete types with known ids.
func (e *Engine) noteIface(it types.Type, fn string) {
	key := fn
	if e.ifaceFacts[key] {
		return
	}
	e.ifaceFacts[key] = true
	e.ifaceList = append(e.ifaceList, ifaceEntry{it, fn})
}

type ifaceEntry struct {
	t  types.Type
	fn string
}

// finishIfaceFacts emits implements-facts for every (interface, concrete type id) pair known so far.
func (e *Engine) finishIfaceFacts() {
	for _, ie := range e.ifaceList {
		it := ie.t.Underlying().(*types.Interface)
		for i, ct := range e.typeByID {
			k := fmt.Sprintf("%s/%d", ie.fn, i+1)
			if e.ifaceFacts[k] {
				continue
			}
			e.ifaceFacts[k] = true
			if _, isIface := ct.Underlying().(*types.Interface); isIface {
				continue
			}
			impl := types.Implements(ct, it)
			if impl {
				e.declare(fmt.Sprintf("(assert (%s %d))", ie.fn, i+1))
			} else {
				e.declare(fmt.Sprintf("(assert (not (%s %d)))", ie.fn, i+1))
			}
		}
	}
}

// identityTypes: library struct types whose meaning is their identity (ghost state is keyed by their address);
// every other opaque struct type (time.Time, url.URL, ...) is a plain value.
var identityTypes = map[string]bool{
	"sync.Mutex": true, "sync.RWMutex": true, "sync.Map": true, "sync.WaitGroup": true, "sync.Once": true,
	"bytes.Buffer": true, "container/list.List": true,
}


// registerMapLeaves: the domain and cardinality components of a Go map family exist whether or not the code
// verified so far has touched them (frame clauses must cover them on every run, independent of evaluation order).
func (c *EvalCtx) registerMapLeaves(fam string) {
	if !strings.HasPrefix(fam, "map:") || strings.Contains(fam, "#") {
		return
	}
	for _, st := range []*State{c.st, c.old} {
		if st == nil {
			continue
		}
		st.comp(fam+"#card", 1, "Int")
		st.comp(fam+"#dom", 2, "Bool")
	}
}


// nilMapAxiom: assume "the nil map has no keys" as a quantified fact per domain version. Off: the ground instances
// added at each lookup suffice for the contracts written so far, and the quantified form slows the solvers markedly.
var nilMapAxiom = os.Getenv("GOVC_NILMAP_AXIOM") == "1"
