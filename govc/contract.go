package main

// Parser for the //@ contract files (comment-only Go files behind the build tag verif).

import (
	"fmt"
	"os"
	"regexp"
	"strconv"
	"strings"
)

type Clause struct {
	Kind  string // requires ensures invariant rangeinv let sends assert_at
	Label string
	Tags  []string // property ids the clause is claimed for (empty = all properties listing the function)
	N     int      // loop / call ordinal
	Static bool    // atcall: N counts call sites in source order, not calls executed
	Name  string   // let name, or anchor callee
	E     *Expr
	Src   string
	Line  int
}

type FuncContract struct {
	Kind     string // func iface functype
	Name     string // (*Broker).removeNode | linkNodes | Node.Process | Option
	Params   []string
	Results  []string
	Clauses  []*Clause
	Assigns  []string // heap components (leaf families) the function may modify; nil = unspecified
	HasAssigns bool
	Pure     bool // no heap effect, no events
	Trusted  bool // body not verified
	Iterator bool // calls its function argument once per entry of a ghost map view (callback-loop rule)
	IterView string // expression text giving the view iterated (over receiver/params)
	NoReturnCheck bool
	ClosedWorld bool // functype: values originate only from this package's own function literals
	Implements []string
	GhostParams []BoundVar
	merged bool
	File     string
	Line     int
	Ghosts   []*GhostUpdate
	Emits    bool // may emit trace events (default true unless pure)
}

// GhostUpdate: anchored ghost assignment "ghost after call <callee>#<n>: <comp>[idx] = expr" (limited form)
type GhostUpdate struct {
	Anchor string // "call <callee>#n"
	Callee string
	N      int
	Havoc  []string
	Value  *Expr
	Line   int
	With   map[string]*Expr
}

type TypeDecl struct {
	Type         string
	GuardedBy    map[string]string // field -> lock spec ("lock" field of same object, or "Owner.lock")
	Immutable    map[string]bool
	Constructors map[string]bool
	CallbackFree map[string]bool // lock fields
	Exempt       map[string]string
	Confined     bool
	SyncMapViews map[string][2]string // field -> key type, value type
	GhostFields  map[string]string    // ghost field name -> type text
	JSONMembers  []string
	JSONLabel    string
	JSONLine     int
	JSONFile     string
}

type SpecFunc struct {
	Name   string
	Params []BoundVar
	Ret    string
	Body   *Expr // nil = uninterpreted
	Line   int
}

type Axiom struct {
	Name string
	E    *Expr
	Line int
}

type ContractSet struct {
	Pkg    string
	Funcs  map[string]*FuncContract
	Types  map[string]*TypeDecl
	Pures  map[string]*SpecFunc
	Axioms []*Axiom
	Files  []string
	NLines int
}

func newContractSet() *ContractSet {
	return &ContractSet{Funcs: map[string]*FuncContract{}, Types: map[string]*TypeDecl{}, Pures: map[string]*SpecFunc{}}
}

var (
	reFuncHdr  = regexp.MustCompile(`^(func|iface|functype)\s+(\S+?)\s*\(([^)]*)\)\s*(?:\(([^)]*)\))?\s*$`)
	reLabel    = regexp.MustCompile(`^([A-Za-z0-9_.+\-/@]+):\s+(.*)$`)
	rePure     = regexp.MustCompile(`^pure\s+([A-Za-z_][A-Za-z0-9_]*)\s*\(([^)]*)\)\s*(\S+)\s*(?:=\s*(.*))?$`)
	reKeyword  = regexp.MustCompile(`^(func|iface|functype|type|pure|axiom|requires|ensures|loop|rangeloop|assigns|let|trusted|pureeffect|iterator|sends|ghost|noreturncheck|safety|closedworld|implements|ghostparam|atcall|cut)\b`)
)

func splitNames(s string) []string {
	var out []string
	for _, p := range strings.Split(s, ",") {
		p = strings.TrimSpace(p)
		if p != "" {
			// allow "name Type" – keep only the name
			out = append(out, strings.Fields(p)[0])
		}
	}
	return out
}

func parseLabel(s string) (label string, tags []string, rest string) {
	m := reLabel.FindStringSubmatch(s)
	if m == nil {
		return "", nil, s
	}
	label = m[1]
	rest = m[2]
	head := label
	if i := strings.Index(label, "/"); i >= 0 {
		head = label[:i]
		for _, t := range strings.Split(head, "+") {
			if regexp.MustCompile(`^C\d+$`).MatchString(t) {
				tags = append(tags, t)
			}
		}
	}
	return
}

func (cs *ContractSet) parseFile(path string) error {
	data, err := os.ReadFile(path)
	if err != nil {
		return err
	}
	cs.Files = append(cs.Files, path)
	type ln struct {
		text string
		no   int
	}
	var lines []ln
	for i, l := range strings.Split(string(data), "\n") {
		t := strings.TrimSpace(l)
		if !strings.HasPrefix(t, "//@") {
			continue
		}
		t = strings.TrimSpace(strings.TrimPrefix(t, "//@"))
		if t == "" || strings.HasPrefix(t, "#") {
			continue
		}
		cs.NLines++
		if !reKeyword.MatchString(t) && len(lines) > 0 {
			lines[len(lines)-1].text += " " + t
			continue
		}
		lines = append(lines, ln{t, i + 1})
	}
	var cur *FuncContract
	for _, l := range lines {
		t := l.text
		errf := func(f string, a ...interface{}) error {
			return fmt.Errorf("%s:%d: %s", path, l.no, fmt.Sprintf(f, a...))
		}
		kw := reKeyword.FindString(t)
		rest := strings.TrimSpace(t[len(kw):])
		switch kw {
		case "func", "iface", "functype":
			m := reFuncHdr.FindStringSubmatch(t)
			if m == nil {
				return errf("bad header %q", t)
			}
			cur = &FuncContract{Kind: m[1], Name: m[2], Params: splitNames(m[3]), Results: splitNames(m[4]), File: path, Line: l.no, Emits: true}
			key := cur.Name
			if cur.Kind != "func" {
				key = cur.Kind + ":" + cur.Name
			}
			if _, dup := cs.Funcs[key]; dup {
				return errf("duplicate contract for %s", key)
			}
			cs.Funcs[key] = cur
		case "requires", "ensures":
			if cur == nil {
				return errf("clause outside function")
			}
			label, tags, body := parseLabel(rest)
			e, err := parseExpr(body)
			if err != nil {
				return errf("%v", err)
			}
			cur.Clauses = append(cur.Clauses, &Clause{Kind: kw, Label: label, Tags: tags, E: e, Src: body, Line: l.no})
		case "loop", "rangeloop":
			if cur == nil {
				return errf("clause outside function")
			}
			f := strings.Fields(rest)
			if kw == "loop" && len(f) == 2 && f[1] == "modular" {
				// loop N modular: the loop head is a merge point. Every path reaching it proves the invariants; the
				// body and the code after the loop are verified once, from a state about which only the entry facts
				// and the invariants are known.
				n, err := strconv.Atoi(f[0])
				if err != nil {
					return errf("bad loop ordinal")
				}
				cur.Clauses = append(cur.Clauses, &Clause{Kind: "loopmodular", N: n, Line: l.no})
				continue
			}
			if len(f) < 3 || f[1] != "invariant" {
				return errf("expected '%s N invariant expr'", kw)
			}
			n, err := strconv.Atoi(f[0])
			if err != nil {
				return errf("bad loop ordinal")
			}
			body := strings.TrimSpace(strings.SplitN(rest, "invariant", 2)[1])
			label, tags, body := parseLabel(body)
			e, err := parseExpr(body)
			if err != nil {
				return errf("%v", err)
			}
			kind := "invariant"
			if kw == "rangeloop" {
				kind = "rangeinv"
			}
			cur.Clauses = append(cur.Clauses, &Clause{Kind: kind, N: n, Label: label, Tags: tags, E: e, Src: body, Line: l.no})
		case "let":
			if cur == nil {
				return errf("clause outside function")
			}
			p := strings.SplitN(rest, "=", 2)
			if len(p) != 2 {
				return errf("bad let")
			}
			e, err := parseExpr(strings.TrimSpace(p[1]))
			if err != nil {
				return errf("%v", err)
			}
			cur.Clauses = append(cur.Clauses, &Clause{Kind: "let", Name: strings.TrimSpace(p[0]), E: e, Src: rest, Line: l.no})
		case "sends":
			// sends <chanvar>: <predicate over msg>
			if cur == nil {
				return errf("clause outside function")
			}
			p := strings.SplitN(rest, ":", 2)
			if len(p) != 2 {
				return errf("bad sends")
			}
			e, err := parseExpr(strings.TrimSpace(p[1]))
			if err != nil {
				return errf("%v", err)
			}
			cur.Clauses = append(cur.Clauses, &Clause{Kind: "sends", Name: strings.TrimSpace(p[0]), E: e, Src: rest, Line: l.no})
		case "assigns":
			if cur == nil {
				return errf("clause outside function")
			}
			cur.HasAssigns = true
			for _, a := range strings.Split(rest, ",") {
				a = strings.TrimSpace(a)
				if a != "" && a != "nothing" {
					cur.Assigns = append(cur.Assigns, a)
				}
			}
		case "safety":
			if cur == nil {
				return errf("clause outside function")
			}
			cur.Clauses = append(cur.Clauses, &Clause{Kind: "safety", Src: rest, Line: l.no})
		case "atcall":
			// atcall <callee>#<n> [label:] expr   – asserted just before that call (callee as printed by go/ssa, e.g. (*bytes.Reader).WriteTo)
			if cur == nil {
				return errf("clause outside function")
			}
			{
				// callee#n: the n-th call of callee executed on the path; callee@k: the k-th call site of callee in source order
				m := regexp.MustCompile(`^(\S+?)([#@])(\d+)\s+(.*)$`).FindStringSubmatch(rest)
				if m == nil {
					return errf("bad atcall clause")
				}
				n, _ := strconv.Atoi(m[3])
				label, tags, body := parseLabel(m[4])
				e, err := parseExpr(body)
				if err != nil {
					return errf("%v", err)
				}
				cur.Clauses = append(cur.Clauses, &Clause{Kind: "atcall", Name: m[1], N: n, Static: m[2] == "@", Label: label, Tags: tags, E: e, Src: body, Line: l.no})
			}
		case "cut":
			// cut before <callee>@<k> [label:] expr – a merge point just before the k-th call of callee in source
			// order: every path reaching it proves expr; the rest of the function is verified once, from a state
			// about which only the entry facts and expr are known.
			if cur == nil {
				return errf("clause outside function")
			}
			{
				m := regexp.MustCompile(`^before\s+(\S+?)@(\d+)\s+(.*)$`).FindStringSubmatch(rest)
				if m == nil {
					return errf("bad cut clause")
				}
				n, _ := strconv.Atoi(m[2])
				label, tags, body := parseLabel(m[3])
				e, err := parseExpr(body)
				if err != nil {
					return errf("%v", err)
				}
				cur.Clauses = append(cur.Clauses, &Clause{Kind: "cut", Name: m[1], N: n, Label: label, Tags: tags, E: e, Src: body, Line: l.no})
			}
		case "closedworld":
			if cur == nil {
				return errf("clause outside function")
			}
			cur.ClosedWorld = true
		case "implements":
			if cur == nil {
				return errf("clause outside function")
			}
			cur.Implements = append(cur.Implements, rest)
		case "trusted":
			if cur == nil {
				return errf("clause outside function")
			}
			cur.Trusted = true
		case "pureeffect":
			if cur == nil {
				return errf("clause outside function")
			}
			cur.Pure = true
			cur.HasAssigns = true
			cur.Emits = false
		case "noreturncheck":
			cur.NoReturnCheck = true
		case "iterator":
			if cur == nil {
				return errf("clause outside function")
			}
			cur.Iterator = true
			cur.IterView = rest
		case "ghost":
			if cur == nil {
				return errf("clause outside function")
			}
			if m := regexp.MustCompile(`^after call (\S+?)#(\d+) havoc ([^:]*):\s*(.*)$`).FindStringSubmatch(rest); m != nil {
				n, _ := strconv.Atoi(m[2])
				ve, err := parseExpr(m[4])
				if err != nil {
					return errf("%v", err)
				}
				cur.Ghosts = append(cur.Ghosts, &GhostUpdate{Anchor: "aftercall", Callee: m[1], N: n, Havoc: splitNames(m[3]), Value: ve, Line: l.no})
			} else if m := regexp.MustCompile(`^at loop (\d+) (entry|backedge) havoc ([^:]*):\s*(.*)$`).FindStringSubmatch(rest); m != nil {
				n, _ := strconv.Atoi(m[1])
				ve, err := parseExpr(m[4])
				if err != nil {
					return errf("%v", err)
				}
				cur.Ghosts = append(cur.Ghosts, &GhostUpdate{Anchor: "loop-" + m[2], N: n, Havoc: splitNames(m[3]), Value: ve, Line: l.no})
			} else if m := regexp.MustCompile(`^call (\S+?)#(\d+) with (.*)$`).FindStringSubmatch(rest); m != nil {
				n, _ := strconv.Atoi(m[2])
				g := &GhostUpdate{Anchor: "witness", Callee: m[1], N: n, Line: l.no, With: map[string]*Expr{}}
				for _, part := range splitTop(m[3]) {
					kv := strings.SplitN(part, "=", 2)
					if len(kv) != 2 {
						return errf("bad witness %q", part)
					}
					e, err := parseExpr(strings.TrimSpace(kv[1]))
					if err != nil {
						return errf("%v", err)
					}
					g.With[strings.TrimSpace(kv[0])] = e
				}
				cur.Ghosts = append(cur.Ghosts, g)
			} else {
				return errf("bad ghost clause")
			}
		case "ghostparam":
			if cur == nil {
				return errf("clause outside function")
			}
			for _, p := range strings.Split(rest, ",") {
				f := strings.Fields(strings.TrimSpace(p))
				if len(f) != 2 {
					return errf("bad ghostparam %q", p)
				}
				cur.GhostParams = append(cur.GhostParams, BoundVar{f[0], f[1]})
			}
		case "pure":
			m := rePure.FindStringSubmatch(t)
			if m == nil {
				return errf("bad pure declaration %q", t)
			}
			sf := &SpecFunc{Name: m[1], Ret: m[3], Line: l.no}
			for _, p := range strings.Split(m[2], ",") {
				p = strings.TrimSpace(p)
				if p == "" {
					continue
				}
				f := strings.Fields(p)
				if len(f) != 2 {
					return errf("bad parameter %q", p)
				}
				sf.Params = append(sf.Params, BoundVar{f[0], f[1]})
			}
			if strings.TrimSpace(m[4]) != "" {
				e, err := parseExpr(m[4])
				if err != nil {
					return errf("%v", err)
				}
				sf.Body = e
			}
			cs.Pures[sf.Name] = sf
			cur = nil
		case "axiom":
			label, _, body := parseLabel(rest)
			e, err := parseExpr(body)
			if err != nil {
				return errf("%v", err)
			}
			cs.Axioms = append(cs.Axioms, &Axiom{Name: label, E: e, Line: l.no})
			cur = nil
		case "type":
			cur = nil
			f := strings.Fields(rest)
			if len(f) < 2 {
				return errf("bad type declaration")
			}
			td := cs.Types[f[0]]
			if td == nil {
				td = &TypeDecl{Type: f[0], GuardedBy: map[string]string{}, Immutable: map[string]bool{}, Constructors: map[string]bool{},
					CallbackFree: map[string]bool{}, Exempt: map[string]string{}, SyncMapViews: map[string][2]string{}, GhostFields: map[string]string{}}
				cs.Types[f[0]] = td
			}
			body := strings.TrimSpace(strings.TrimPrefix(rest, f[0]))
			switch f[1] {
			case "guarded_by":
				p := strings.SplitN(strings.TrimPrefix(body, "guarded_by"), ":", 2)
				if len(p) != 2 {
					return errf("bad guarded_by")
				}
				lock := strings.TrimSpace(p[0])
				for _, fld := range splitNames(p[1]) {
					td.GuardedBy[fld] = lock
				}
			case "immutable":
				p := strings.SplitN(strings.TrimPrefix(body, "immutable"), "constructors", 2)
				for _, fld := range splitNames(p[0]) {
					td.Immutable[fld] = true
				}
				if len(p) == 2 {
					for _, c := range splitNames(p[1]) {
						td.Constructors[c] = true
					}
				}
			case "callback_free":
				for _, fld := range splitNames(strings.TrimPrefix(body, "callback_free")) {
					td.CallbackFree[fld] = true
				}
			case "exempt":
				p := strings.SplitN(strings.TrimPrefix(body, "exempt"), ":", 2)
				why := ""
				if len(p) == 2 {
					why = strings.TrimSpace(p[1])
				}
				for _, fld := range splitNames(p[0]) {
					td.Exempt[fld] = why
				}
			case "confined":
				td.Confined = true
			case "jsonmembers":
				// type T jsonmembers <label>: a, b?, c   (expected JSON member names, ? = omitempty)
				p := strings.SplitN(strings.TrimPrefix(body, "jsonmembers"), ":", 2)
				if len(p) != 2 {
					return errf("bad jsonmembers")
				}
				td.JSONLabel = strings.TrimSpace(p[0])
				td.JSONMembers = splitNames(p[1])
				td.JSONLine = l.no
				td.JSONFile = path
			case "syncmap":
				// type graphMap syncmap m: PipelineID -> *registeredPipeline
				m := regexp.MustCompile(`^syncmap\s+(\w+)\s*:\s*(\S+)\s*->\s*(\S+)$`).FindStringSubmatch(body)
				if m == nil {
					return errf("bad syncmap declaration")
				}
				td.SyncMapViews[m[1]] = [2]string{m[2], m[3]}
			case "ghostfield":
				m := regexp.MustCompile(`^ghostfield\s+(\w+)\s+(.+)$`).FindStringSubmatch(body)
				if m == nil {
					return errf("bad ghostfield declaration")
				}
				td.GhostFields[m[1]] = strings.TrimSpace(m[2])
			default:
				return errf("unknown type declaration %q", f[1])
			}
		default:
			return errf("unknown directive %q", t)
		}
	}
	return nil
}

// splitTop splits on commas that are not nested in parentheses/brackets.
func splitTop(s string) []string {
	var out []string
	d, last := 0, 0
	for i := 0; i < len(s); i++ {
		switch s[i] {
		case '(', '[':
			d++
		case ')', ']':
			d--
		case ',':
			if d == 0 {
				out = append(out, s[last:i])
				last = i + 1
			}
		}
	}
	return append(out, s[last:])
}
