package main

// Symbolic values, the heap model and the per-path state.

import (
	"fmt"
	"go/types"
	"sort"
	"strings"

	"golang.org/x/tools/go/ssa"
)

type VK int

const (
	KInt VK = iota
	KBool
	KStruct
	KSlice
	KIface
	KTuple
	KLoc
)

// Loc is a symbolic location (the meaning of a pointer the executor can see through).
type Loc struct {
	T    types.Type // type stored at the location
	Comp string     // heap leaf family (without #leaf suffix) – for non-struct contents
	Idx  []string   // index terms (1 or 2)
	Obj  string     // when T is a non-opaque struct living in the heap: object reference
	Ref  string     // integer identity of the location when it has one (opaque struct fields, boxes)
	Cell *ssa.Alloc // local cell
	Path []int      // field path inside the cell
	Owner    types.Type // struct type owning the field (for lock discipline)
	Field    string
	OwnerRef string
}

type V struct {
	K   VK
	T   types.Type
	S   string // KInt / KBool term
	F   []*V   // KStruct / KTuple
	Arr, Off, Len, Cap string // KSlice
	Tag, Val           string // KIface
	L   *Loc
	L2  *mapHandle
	Fn    *ssa.Function // closure / function value when statically known
	Binds []*V
	Prov  string // provenance note (e.g. "ctx.Done" channel of which context)
}

func vInt(s string, t types.Type) *V   { return &V{K: KInt, S: s, T: t} }
func vBool(s string) *V               { return &V{K: KBool, S: s, T: types.Typ[types.Bool]} }

// ---- engine-global tables ----

type Engine struct {
	wanted func(*FnRun, *Obligation) bool // obligations worth building (nil: all)
	retryOnly func(*Obligation) bool // which undecided obligations get the second-chance pass (nil: all)
	dyn *dynTargets
	prog      *ssa.Program
	repoPkgs  map[string]bool // package paths that belong to the repository
	contracts map[string]*ContractSet // by package path
	funcs     map[string]*ssa.Function // "pkgpath::relname"
	strIDs    map[string]int
	typeIDs   map[string]int
	typeByID  []types.Type
	prelude   []string
	preSet    map[string]bool
	compSort  map[string]string // leaf comp -> sort
	faIDs     map[string]int
	ifaceFacts map[string]bool
	ifaceList []ifaceEntry
	reachCache map[*ssa.Function]map[string]bool
	loadedPkgs []*ssa.Package
	opts      EngineOpts
}

type EngineOpts struct {
	Timeout int
	Thorough bool
	Verbose bool
}

func (e *Engine) declare(line string) {
	if e.preSet[line] {
		return
	}
	if m := declNameRe.FindStringSubmatch(line); m != nil {
		// one declaration per symbol, whatever the spacing
		if e.preSet["decl:"+m[1]] {
			return
		}
		e.preSet["decl:"+m[1]] = true
	}
	e.preSet[line] = true
	e.prelude = append(e.prelude, line)
}

func (e *Engine) strID(s string) string {
	if s == "" {
		return "0"
	}
	id, ok := e.strIDs[s]
	if !ok {
		id = len(e.strIDs) + 1
		e.strIDs[s] = id
		// string ids live in a reserved band so they never collide with small integers used as refs
		e.declare(fmt.Sprintf("(assert (= (strlen %d) %d))", 1000000+id, len(s)))
	}
	return fmt.Sprintf("%d", 1000000+id)
}

func (e *Engine) typeID(t types.Type) string {
	k := types.TypeString(t, nil)
	id, ok := e.typeIDs[k]
	if !ok {
		id = len(e.typeIDs) + 1
		e.typeIDs[k] = id
		e.typeByID = append(e.typeByID, t)
	}
	return fmt.Sprintf("%d", id)
}

func (e *Engine) isRepoPkg(p *types.Package) bool {
	return p != nil && e.repoPkgs[p.Path()]
}

// opaque reports whether values of struct type t are treated as abstract integers.
func (e *Engine) opaque(t types.Type) bool {
	if _, ok := t.Underlying().(*types.Struct); !ok {
		return false
	}
	if n, ok := t.(*types.Named); ok {
		if transparentExternal[types.TypeString(t, nil)] {
			return false
		}
		return !e.isRepoPkg(n.Obj().Pkg())
	}
	if a, ok := t.(*types.Alias); ok {
		return e.opaque(types.Unalias(a))
	}
	return false
}

func (e *Engine) shape(t types.Type) VK {
	switch u := t.Underlying().(type) {
	case *types.Basic:
		if u.Info()&types.IsBoolean != 0 {
			return KBool
		}
		return KInt
	case *types.Interface:
		return KIface
	case *types.Slice:
		return KSlice
	case *types.Struct:
		if e.opaque(t) {
			return KInt
		}
		return KStruct
	case *types.Tuple:
		return KTuple
	}
	return KInt
}

// tn is the name of a type as used in heap component names and contracts.
func (r *FnRun) tn(t types.Type) string { return r.eng.tnFor(t, r.fn.Pkg.Pkg) }

func (e *Engine) tnFor(t types.Type, cur *types.Package) string {
	s := types.TypeString(t, func(p *types.Package) string {
		if p == cur {
			return ""
		}
		return p.Name()
	})
	return strings.ReplaceAll(s, "interface{}", "any")
}

// nameV gives long scalar terms of a value a short name (keeps queries small).
func (s *State) nameV(prefix string, v *V) *V {
	nm := func(t, sort string) string {
		if len(t) < 60 {
			return t
		}
		n := s.run.fresh(prefix, sort)
		s.assume(sEq(n, t))
		return n
	}
	switch v.K {
	case KInt:
		c := *v
		c.S = nm(v.S, "Int")
		return &c
	case KBool:
		c := *v
		c.S = nm(v.S, "Bool")
		return &c
	case KIface:
		c := *v
		c.Tag, c.Val = nm(v.Tag, "Int"), nm(v.Val, "Int")
		return &c
	case KSlice:
		c := *v
		c.Arr, c.Off, c.Len, c.Cap = nm(v.Arr, "Int"), nm(v.Off, "Int"), nm(v.Len, "Int"), nm(v.Cap, "Int")
		return &c
	case KStruct, KTuple:
		c := *v
		c.F = nil
		for _, f := range v.F {
			c.F = append(c.F, s.nameV(prefix, f))
		}
		return &c
	}
	return v
}

// ---- per function run ----

type Obligation struct {
	Name     string
	Func     string
	Pkg      string
	Kind     string // ensures requires-at-call invariant-established invariant-preserved safety guarded immutable callback-free lock send-inv cover canary
	Label    string
	Tags     []string
	Query    *Query
	Abstracted bool
	Pos      string
	PathDesc string
	Result   *SolverResult
	ClauseKey string
	Expect   string // "unsat" (normal) or "sat" (cover/canary obligations: must NOT be provable)
	QueryText string
	Skipped  bool // not claimed on this run (error-flow sweep instance outside the baseline)
}

type FnRun struct {
	eng   *Engine
	cutInit bool
	cutMap  map[ssa.Instruction][]*Clause
	cutDone map[ssa.Instruction]map[string]int
	fn    *ssa.Function
	fc    *FuncContract
	cs    *ContractSet
	relName string
	decls []string
	declSet map[string]bool
	obls  []*Obligation
	nfresh int
	npaths int
	abstractedNotes []string
	unmodelled map[string]bool
	inlined map[string]bool
	errs []string
	returnsSeen int
	nilChecked bool
	safetyNil bool
	loops map[*ssa.Function]*loopInfo
	entry *State
	entryAlloc string
	pathCapHit bool
	noInvLoops []string
	modelsUsed map[string]bool
	calleesByContract map[string]bool
	calleeKeys map[string]bool // "pkgname:relname" of functions called by contract
	failKeysDone bool
	notes map[string]bool
	loopDone map[*ssa.BasicBlock]bool
	errDisc map[string]bool
	failKeyList []string
	trustedCallees map[string]bool
	trustedFP map[string]string // trusted function -> fingerprint of its body
	pureIfaces map[string]bool
	userCalls map[string]bool
	spawned map[string]bool
	blockingNoDone []string
	rootOf map[string]string
	lockCands []string
	closedWorld map[string]bool
	axiomsUsed []string
}

func (r *FnRun) fresh(prefix, sort string) string {
	r.nfresh++
	name := mangle(fmt.Sprintf("%s!%d", prefix, r.nfresh))
	r.declare(name, sort)
	return name
}

func (r *FnRun) declare(name, sort string) {
	if r.declSet[name] {
		return
	}
	r.declSet[name] = true
	r.decls = append(r.decls, fmt.Sprintf("(declare-const %s %s)", name, sort))
}

type pcNode struct {
	term string
	prev *pcNode
	n    int
}

type deferRec struct {
	call *ssa.CallCommon
	args []*V
	fnv  *V
	instr ssa.Instruction
}

type State struct {
	run   *FnRun
	regs  map[ssa.Value]*V
	cells map[*ssa.Alloc]*V
	heap  map[string]string // leaf comp -> current array term
	ghost map[string]string // scalar ghosts: alloc, ev.n
	pc    *pcNode
	lets  map[string]*V
	params map[string]*V // entry values of parameters (by contract name and by source name)
	results []*V
	active map[*ssa.BasicBlock]bool
	abstracted bool
	prev  *ssa.BasicBlock
	callOrd map[string]int
	nonNil map[string]bool
	epoch int
	trail []string // human-readable path description
	depth int
	iterSeen map[int]string // rangeloop ordinal -> current "seen" set term (Array Int Bool)
	guardSeen map[string]bool
	ghostParams map[string]*V
	wcache map[string][]wentry
	mapAx map[string]bool
	famEpoch map[string]int
	allocRefs map[string]bool
	deferStacks [][]*deferRec
	stack []*ssa.Function
	skipCut ssa.Instruction
	lastArgs map[string][]*V // actual arguments of the most recent direct call per callee (this activation, this path)
	sink    *State // assumptions made while evaluating in this (earlier) state are recorded on the path of sink
}


func (s *State) clone() *State {
	n := *s
	n.regs = make(map[ssa.Value]*V, len(s.regs))
	for k, v := range s.regs {
		n.regs[k] = v
	}
	n.cells = make(map[*ssa.Alloc]*V, len(s.cells))
	for k, v := range s.cells {
		n.cells[k] = v
	}
	n.heap = make(map[string]string, len(s.heap))
	for k, v := range s.heap {
		n.heap[k] = v
	}
	n.ghost = make(map[string]string, len(s.ghost))
	for k, v := range s.ghost {
		n.ghost[k] = v
	}
	n.lets = make(map[string]*V, len(s.lets))
	for k, v := range s.lets {
		n.lets[k] = v
	}
	n.active = make(map[*ssa.BasicBlock]bool, len(s.active))
	for k, v := range s.active {
		n.active[k] = v
	}
	n.callOrd = make(map[string]int, len(s.callOrd))
	for k, v := range s.callOrd {
		n.callOrd[k] = v
	}
	n.nonNil = make(map[string]bool, len(s.nonNil))
	for k, v := range s.nonNil {
		n.nonNil[k] = v
	}
	n.iterSeen = make(map[int]string, len(s.iterSeen))
	for k, v := range s.iterSeen {
		n.iterSeen[k] = v
	}
	n.trail = append([]string(nil), s.trail...)
	n.guardSeen = make(map[string]bool, len(s.guardSeen))
	for k, v := range s.guardSeen {
		n.guardSeen[k] = v
	}
	n.wcache = make(map[string][]wentry, len(s.wcache))
	for k, v := range s.wcache {
		n.wcache[k] = v
	}
	n.famEpoch = make(map[string]int, len(s.famEpoch))
	for k, v := range s.famEpoch {
		n.famEpoch[k] = v
	}
	n.mapAx = make(map[string]bool, len(s.mapAx))
	for k, v := range s.mapAx {
		n.mapAx[k] = v
	}
	n.allocRefs = make(map[string]bool, len(s.allocRefs))
	for k, v := range s.allocRefs {
		n.allocRefs[k] = v
	}
	n.deferStacks = append([][]*deferRec(nil), s.deferStacks...)
	n.stack = append([]*ssa.Function(nil), s.stack...)
	return &n
}

func (s *State) assume(t string) {
	if t == "true" || t == "" {
		return
	}
	if s.sink != nil {
		// forwarded well-formedness facts repeat; skip one that is already among the recent assumptions
		n := 0
		for p := s.sink.pc; p != nil && n < 64; p, n = p.prev, n+1 {
			if p.term == t {
				return
			}
		}
		s.sink.assume(t)
		return
	}
	n := 1
	if s.pc != nil {
		n = s.pc.n + 1
	}
	s.pc = &pcNode{term: t, prev: s.pc, n: n}
}

func (s *State) pcList() []string {
	var out []string
	for p := s.pc; p != nil; p = p.prev {
		out = append(out, p.term)
	}
	for i, j := 0, len(out)-1; i < j; i, j = i+1, j-1 {
		out[i], out[j] = out[j], out[i]
	}
	return out
}

// known reports whether the path condition already contains the literal (1), its negation (-1) or neither (0).
func (s *State) known(t string) int {
	nt := sNot(t)
	for p := s.pc; p != nil; p = p.prev {
		if p.term == t {
			return 1
		}
		if p.term == nt {
			return -1
		}
	}
	return 0
}

func (s *State) infeasible() bool {
	for p := s.pc; p != nil; p = p.prev {
		if p.term == "false" {
			return true
		}
	}
	return false
}

// ---- heap components ----

func leafSort(k VK) string {
	if k == KBool {
		return "Bool"
	}
	return "Int"
}

func arrSort(levels int, leaf string) string {
	s := leaf
	for i := 0; i < levels; i++ {
		s = "(Array Int " + s + ")"
	}
	return s
}

// comp returns the current term of a leaf component, creating its initial version lazily.
func (s *State) comp(leaf string, levels int, leafsort string) string {
	if t, ok := s.heap[leaf]; ok {
		return t
	}
	sort := arrSort(levels, leafsort)
	if old, ok := s.run.eng.compSort[leaf]; ok && old != sort {
		s.run.errs = append(s.run.errs, fmt.Sprintf("component %s used at two sorts: %s vs %s", leaf, old, sort))
	}
	s.run.eng.compSort[leaf] = sort
	ep := s.epoch
	fam := leaf
	if i := strings.Index(leaf, "#"); i >= 0 {
		fam = leaf[:i]
	}
	if e, ok := s.famEpoch[fam]; ok && e > ep {
		ep = e
	}
	if e, ok := s.famEpoch[leaf]; ok && e > ep {
		ep = e
	}
	name := mangle(fmt.Sprintf("%s@%d", leaf, ep))
	s.run.declare(name, sort)
	s.heap[leaf] = name
	return name
}

// initial (entry) version of a component
func (s *State) comp0(leaf string, levels int, leafsort string) string {
	sort := arrSort(levels, leafsort)
	s.run.eng.compSort[leaf] = sort
	name := mangle(fmt.Sprintf("%s@0", leaf))
	s.run.declare(name, sort)
	return name
}

func selN(arr string, idx []string) string {
	t := arr
	for _, i := range idx {
		t = sSel(t, i)
	}
	return t
}

func stoN(arr string, idx []string, v string) string {
	if len(idx) == 1 {
		return sSto(arr, idx[0], v)
	}
	return sSto(arr, idx[0], stoN(sSel(arr, idx[0]), idx[1:], v))
}

type wentry struct {
	idx []string
	val string
}

func sameIdx(a, b []string) bool {
	if len(a) != len(b) {
		return false
	}
	for i := range a {
		if a[i] != b[i] {
			return false
		}
	}
	return true
}

// distinctIdx: syntactically certain that the two index tuples differ (two different allocation results)
func (s *State) distinctIdx(a, b []string) bool {
	for i := range a {
		if i < len(b) && a[i] != b[i] && s.allocRefs[a[i]] && s.allocRefs[b[i]] {
			return true
		}
		if i < len(b) && a[i] != b[i] && isIntLit(a[i]) && isIntLit(b[i]) {
			return true
		}
	}
	return false
}

func (s *State) readLeaf(leaf string, idx []string, leafsort string) string {
	// read-over-write resolved syntactically where possible (keeps terms small and quantifier matching easy)
	ws := s.wcache[leaf]
	for i := len(ws) - 1; i >= 0; i-- {
		if sameIdx(ws[i].idx, idx) {
			return ws[i].val
		}
		if !s.distinctIdx(ws[i].idx, idx) {
			break
		}
	}
	return selN(s.comp(leaf, len(idx), leafsort), idx)
}

func (s *State) writeLeaf(leaf string, idx []string, leafsort string, v string) {
	cur := s.comp(leaf, len(idx), leafsort)
	nt := stoN(cur, idx, v)
	// name the new version to keep terms small
	name := s.run.fresh(leaf, arrSort(len(idx), leafsort))
	s.assume(sEq(name, nt))
	s.heap[leaf] = name
	s.wcache[leaf] = append(s.wcache[leaf][:len(s.wcache[leaf]):len(s.wcache[leaf])], wentry{append([]string(nil), idx...), v})
}

func (s *State) havocLeaf(leaf string) {
	delete(s.wcache, leaf)
	sort, ok := s.run.eng.compSort[leaf]
	if !ok {
		// not materialised yet: make sure a later first use does not pick the pre-havoc name
		delete(s.heap, leaf)
		s.famEpoch[leaf] = s.run.nextEpoch()
		return
	}
	s.heap[leaf] = s.run.fresh(leaf, sort)
}

// havocFamily havocs every leaf whose name is fam or starts with fam+"#".
func (s *State) havocFamily(fam string) {
	// leaves of the family that have not been materialised yet get a new epoch as well
	s.famEpoch[fam] = s.run.nextEpoch()
	for leaf := range s.run.eng.compSort {
		if leaf == fam || strings.HasPrefix(leaf, fam+"#") {
			s.havocLeaf(leaf)
		}
	}
}

func (s *State) havocAllHeap(except map[string]bool) {
	var leaves []string
	for leaf := range s.run.eng.compSort {
		leaves = append(leaves, leaf)
	}
	sort.Strings(leaves)
	for _, leaf := range leaves {
		fam := leaf
		if i := strings.Index(leaf, "#"); i >= 0 {
			fam = leaf[:i]
		}
		if except[fam] || except[leaf] {
			continue
		}
		s.havocLeaf(leaf)
	}
	s.epoch = s.run.nextEpoch()
}

var epochCounter int

func (r *FnRun) nextEpoch() int { epochCounter++; return epochCounter }

// ---- reading / writing typed values ----

func (s *State) readAt(fam string, idx []string, t types.Type) *V {
	r := s.run
	switch r.eng.shape(t) {
	case KInt:
		v := vInt(s.readLeaf(fam, idx, "Int"), t)
		s.assumeTypeRange(v)
		if isRefType(t) && strings.HasPrefix(v.S, "(select ") {
			// a component not written since entry holds only references that existed at entry (reads of later
			// versions get their bound where the code loads them: fewer facts keep the solvers fast)
			if b := s.allocBound(fam); b == s.run.entryAlloc && b != "" {
				s.assume("(< " + v.S + " " + b + ")")
			}
		}
		return v
	case KBool:
		return &V{K: KBool, T: t, S: s.readLeaf(fam, idx, "Bool")}
	case KIface:
		return &V{K: KIface, T: t, Tag: s.readLeaf(fam+"#tag", idx, "Int"), Val: s.readLeaf(fam+"#val", idx, "Int")}
	case KSlice:
		v := &V{K: KSlice, T: t, Arr: s.readLeaf(fam+"#arr", idx, "Int"), Off: s.readLeaf(fam+"#off", idx, "Int"),
			Len: s.readLeaf(fam+"#len", idx, "Int"), Cap: s.readLeaf(fam+"#cap", idx, "Int")}
		s.assume(sAnd("(>= "+v.Len+" 0)", "(>= "+v.Off+" 0)", "(>= "+v.Cap+" "+v.Len+")", "(< "+v.Arr+" "+s.ghost["alloc"]+")"))
		return v
	case KStruct:
		panic("readAt on struct type " + t.String())
	}
	panic("readAt: unsupported shape for " + t.String())
}

func (s *State) writeAt(fam string, idx []string, t types.Type, v *V) {
	r := s.run
	switch r.eng.shape(t) {
	case KInt:
		s.writeLeaf(fam, idx, "Int", v.S)
	case KBool:
		s.writeLeaf(fam, idx, "Bool", v.S)
	case KIface:
		s.writeLeaf(fam+"#tag", idx, "Int", v.Tag)
		s.writeLeaf(fam+"#val", idx, "Int", v.Val)
	case KSlice:
		s.writeLeaf(fam+"#arr", idx, "Int", v.Arr)
		s.writeLeaf(fam+"#off", idx, "Int", v.Off)
		s.writeLeaf(fam+"#len", idx, "Int", v.Len)
		s.writeLeaf(fam+"#cap", idx, "Int", v.Cap)
	default:
		panic("writeAt: unsupported shape for " + t.String())
	}
}

// fa returns the identity of the embedded object in field f of struct type st at object ref.
func (r *FnRun) fa(st types.Type, field string, ref string) string {
	e := r.eng
	name := mangle("fa:" + r.tn(st) + "." + field)
	key := name
	if _, ok := e.faIDs[key]; !ok {
		id := len(e.faIDs) + 1
		e.faIDs[key] = id
		e.declare(fmt.Sprintf("(declare-fun %s (Int) Int)", name))
		e.declare(fmt.Sprintf("(assert (forall ((x Int)) (! (and (= (objkind (%s x)) %d) (= (objowner (%s x)) x) (> (%s x) 0)) :pattern ((%s x)))))", name, id, name, name, name))
	}
	t := "(" + name + " " + ref + ")"
	if r.rootOf != nil {
		r.rootOf[t] = ref
	}
	return t
}

func (r *FnRun) structFields(t types.Type) *types.Struct {
	st, _ := t.Underlying().(*types.Struct)
	return st
}

// fieldLoc gives the location of field i of the struct object (type st) at ref.
func (s *State) fieldLoc(ref string, st types.Type, i int) *Loc {
	r := s.run
	f := r.structFields(st).Field(i)
	ft := f.Type()
	if _, isStruct := ft.Underlying().(*types.Struct); isStruct {
		id := r.fa(st, f.Name(), ref)
		if r.eng.opaque(ft) {
			return &Loc{T: ft, Comp: "box:" + r.tn(ft), Idx: []string{id}, Ref: id, Owner: st, Field: f.Name(), OwnerRef: ref}
		}
		return &Loc{T: ft, Obj: id, Ref: id, Owner: st, Field: f.Name(), OwnerRef: ref}
	}
	return &Loc{T: ft, Comp: r.tn(st) + "." + f.Name(), Idx: []string{ref}, Owner: st, Field: f.Name(), OwnerRef: ref}
}

// ixTerm forms the position of element idx of a slice with offset off. The wrapper function keeps quantifier
// triggers syntactic: (ix off j) is matched as is; its meaning off+j is supplied by a pattern-guarded axiom.
func (s *State) ixTerm(off, idx string) string {
	if isIntLit(off) && isIntLit(idx) {
		return foldArith("+", off, idx)
	}
	if off == "0" {
		return idx
	}
	e := s.run.eng
	e.declare("(declare-fun ix (Int Int) Int)")
	e.declare("(assert (forall ((a Int) (b Int)) (! (= (ix a b) (+ a b)) :pattern ((ix a b)))))")
	return "(ix " + off + " " + idx + ")"
}

func (s *State) elemLoc(arr, idx string, et types.Type) *Loc {
	r := s.run
	if _, isStruct := et.Underlying().(*types.Struct); isStruct && !r.eng.opaque(et) {
		r.eng.declare("(declare-fun elref (Int Int) Int)")
		id := "(elref " + arr + " " + idx + ")"
		return &Loc{T: et, Obj: id, Ref: id}
	}
	return &Loc{T: et, Comp: "elem:" + r.tn(et), Idx: []string{arr, idx}}
}

// derefLoc turns a pointer value into the location it designates.
func (s *State) derefLoc(p *V) *Loc {
	if p.K == KLoc {
		return p.L
	}
	pt, ok := p.T.Underlying().(*types.Pointer)
	if !ok {
		panic("derefLoc on non-pointer " + p.T.String())
	}
	et := pt.Elem()
	if _, isStruct := et.Underlying().(*types.Struct); isStruct && !s.run.eng.opaque(et) {
		return &Loc{T: et, Obj: p.S, Ref: p.S}
	}
	if _, isArr := et.Underlying().(*types.Array); isArr {
		return &Loc{T: et, Ref: p.S}
	}
	return &Loc{T: et, Comp: "box:" + s.run.tn(et), Idx: []string{p.S}, Ref: p.S}
}

func (s *State) load(l *Loc) *V {
	r := s.run
	if l.Cell != nil {
		v := s.cells[l.Cell]
		if v == nil {
			v = s.zero(l.Cell.Type().Underlying().(*types.Pointer).Elem())
		}
		for _, i := range l.Path {
			if i >= len(v.F) {
				// a field of a value the model keeps abstract (struct type of another module): unknown
				r.abstractNote(s, "field read of an abstract struct value")
				return s.sym("absfield", l.T)
			}
			v = v.F[i]
		}
		return v
	}
	if l.Obj != "" {
		st := r.structFields(l.T)
		out := &V{K: KStruct, T: l.T}
		for i := 0; i < st.NumFields(); i++ {
			out.F = append(out.F, s.load(s.fieldLoc(l.Obj, l.T, i)))
		}
		return out
	}
	if l.Comp == "" {
		panic("load from array pointer location")
	}
	return s.readAt(l.Comp, l.Idx, l.T)
}

func setPath(v *V, path []int, nv *V) *V {
	if len(path) == 0 {
		return nv
	}
	c := *v
	c.F = append([]*V(nil), v.F...)
	c.F[path[0]] = setPath(v.F[path[0]], path[1:], nv)
	return &c
}

func (s *State) store(l *Loc, v *V) {
	r := s.run
	if l.Cell != nil {
		cur := s.cells[l.Cell]
		if cur == nil {
			cur = s.zero(l.Cell.Type().Underlying().(*types.Pointer).Elem())
		}
		if len(l.Path) > 0 && pathOutside(cur, l.Path) {
			// a field write into a value the model keeps abstract: the whole value becomes unknown
			r.abstractNote(s, "field write into an abstract struct value")
			s.cells[l.Cell] = s.sym("absval", l.Cell.Type().Underlying().(*types.Pointer).Elem())
			return
		}
		s.cells[l.Cell] = setPath(cur, l.Path, v)
		return
	}
	if l.Obj != "" {
		st := r.structFields(l.T)
		for i := 0; i < st.NumFields(); i++ {
			s.store(s.fieldLoc(l.Obj, l.T, i), v.F[i])
		}
		return
	}
	s.writeAt(l.Comp, l.Idx, l.T, v)
}

// ---- constructing values ----

func (s *State) zero(t types.Type) *V {
	r := s.run
	switch r.eng.shape(t) {
	case KInt:
		return vInt("0", t)
	case KBool:
		return &V{K: KBool, T: t, S: "false"}
	case KIface:
		return &V{K: KIface, T: t, Tag: "0", Val: "0"}
	case KSlice:
		return &V{K: KSlice, T: t, Arr: "0", Off: "0", Len: "0", Cap: "0"}
	case KStruct:
		st := r.structFields(t)
		out := &V{K: KStruct, T: t}
		for i := 0; i < st.NumFields(); i++ {
			out.F = append(out.F, s.zero(st.Field(i).Type()))
		}
		return out
	case KTuple:
		tp := t.(*types.Tuple)
		out := &V{K: KTuple, T: t}
		for i := 0; i < tp.Len(); i++ {
			out.F = append(out.F, s.zero(tp.At(i).Type()))
		}
		return out
	}
	panic("zero")
}

func (s *State) assumeTypeRange(v *V) {
	if v.K != KInt || v.T == nil {
		return
	}
	if b, ok := v.T.Underlying().(*types.Basic); ok {
		if b.Info()&types.IsUnsigned != 0 {
			s.assume("(>= " + v.S + " 0)")
		}
	}
}

// sym creates a fresh unconstrained value of type t.
func (s *State) sym(prefix string, t types.Type) *V {
	r := s.run
	switch r.eng.shape(t) {
	case KInt:
		v := vInt(r.fresh(prefix, "Int"), t)
		s.assumeTypeRange(v)
		s.assumeAllocated(v)
		return v
	case KBool:
		return &V{K: KBool, T: t, S: r.fresh(prefix, "Bool")}
	case KIface:
		v := &V{K: KIface, T: t, Tag: r.fresh(prefix+".tag", "Int"), Val: r.fresh(prefix+".val", "Int")}
		s.assume(sAnd("(>= "+v.Tag+" 0)", sImp(sEq(v.Tag, "0"), sEq(v.Val, "0"))))
		return v
	case KSlice:
		v := &V{K: KSlice, T: t, Arr: r.fresh(prefix+".arr", "Int"), Off: r.fresh(prefix+".off", "Int"),
			Len: r.fresh(prefix+".len", "Int"), Cap: r.fresh(prefix+".cap", "Int")}
		s.assume(sAnd("(>= "+v.Len+" 0)", "(>= "+v.Off+" 0)", "(>= "+v.Cap+" "+v.Len+")", "(>= "+v.Arr+" 0)", "(< "+v.Arr+" "+s.ghost["alloc"]+")"))
		return v
	case KStruct:
		st := r.structFields(t)
		out := &V{K: KStruct, T: t}
		for i := 0; i < st.NumFields(); i++ {
			out.F = append(out.F, s.sym(prefix+"."+st.Field(i).Name(), st.Field(i).Type()))
		}
		return out
	case KTuple:
		tp := t.(*types.Tuple)
		out := &V{K: KTuple, T: t}
		for i := 0; i < tp.Len(); i++ {
			out.F = append(out.F, s.sym(fmt.Sprintf("%s.%d", prefix, i), tp.At(i).Type()))
		}
		return out
	}
	panic("sym")
}

func isRefType(t types.Type) bool {
	switch t.Underlying().(type) {
	case *types.Pointer, *types.Map, *types.Chan:
		return true
	}
	return false
}

// assumeAllocated records that a reference read from the pre-existing world is older than anything allocated later.
func (s *State) assumeAllocated(v *V) {
	if v.K == KInt && v.T != nil && isRefType(v.T) {
		s.assume(sAnd("(>= "+v.S+" 0)", "(< "+v.S+" "+s.ghost["alloc"]+")"))
	}
}

func (s *State) allocRef() string {
	r := s.ghost["alloc"]
	s.ghost["alloc"] = "(+ " + r + " 1)"
	if strings.HasPrefix(r, "(+ ") {
		// keep the counter term flat: name it
		n := s.run.fresh("alloc", "Int")
		s.assume(sEq(n, r))
		r = n
		s.ghost["alloc"] = "(+ " + n + " 1)"
	}
	s.run.eng.declare("(declare-fun objkind (Int) Int)")
	s.run.eng.declare("(declare-fun objowner (Int) Int)")
	s.assume(sEq("(objkind "+r+")", "0"))
	s.allocRefs[r] = true
	return r
}

// bumpAlloc models allocation by unknown code.
func (s *State) bumpAlloc() {
	n := s.run.fresh("alloc", "Int")
	s.assume("(>= " + n + " " + s.ghost["alloc"] + ")")
	s.ghost["alloc"] = n
}

func (s *State) eqV(a, b *V) string {
	if a.K != b.K {
		// comparing e.g. iface with pointer does not happen in typed SSA
		panic(fmt.Sprintf("eqV kind mismatch %v %v (%v vs %v)", a.K, b.K, a.T, b.T))
	}
	switch a.K {
	case KInt, KBool:
		return sEq(a.S, b.S)
	case KIface:
		return sAnd(sEq(a.Tag, b.Tag), sEq(a.Val, b.Val))
	case KStruct, KTuple:
		var cs []string
		for i := range a.F {
			cs = append(cs, s.eqV(a.F[i], b.F[i]))
		}
		return sAnd(cs...)
	case KSlice:
		return sAnd(sEq(a.Arr, b.Arr), sEq(a.Off, b.Off), sEq(a.Len, b.Len), sEq(a.Cap, b.Cap))
	case KLoc:
		if a.L.Ref != "" && b.L.Ref != "" {
			return sEq(a.L.Ref, b.L.Ref)
		}
	}
	panic("eqV")
}

// leaves flattens a value into its scalar terms (for trace events / UF arguments).
func leaves(v *V) []string {
	switch v.K {
	case KInt, KBool:
		return []string{v.S}
	case KIface:
		return []string{v.Tag, v.Val}
	case KSlice:
		return []string{v.Arr, v.Off, v.Len, v.Cap}
	case KStruct, KTuple:
		var o []string
		for _, f := range v.F {
			o = append(o, leaves(f)...)
		}
		return o
	case KLoc:
		if v.L.Ref != "" {
			return []string{v.L.Ref}
		}
	}
	return nil
}

// intLeaves is leaves() with booleans encoded as 0/1 (for trace slots and Int-sorted uninterpreted functions).
func intLeaves(v *V) []string {
	switch v.K {
	case KBool:
		return []string{sIte(v.S, "1", "0")}
	case KStruct, KTuple:
		var o []string
		for _, f := range v.F {
			o = append(o, intLeaves(f)...)
		}
		return o
	}
	return leaves(v)
}

// transparentExternal: library struct types whose exported fields the code under contract reads directly.
var transparentExternal = map[string]bool{"container/list.Element": true}


// viewFor: this (earlier) state as seen from the path of cur: reads are as in s, well-formedness facts assumed
// while reading are added to cur's path condition.
func (s *State) viewFor(cur *State) *State {
	if s == cur || cur == nil {
		return s
	}
	o := *s
	o.mapAx = map[string]bool{}
	for cur.sink != nil {
		cur = cur.sink
	}
	o.sink = cur
	return &o
}


// allocBound: an upper bound on the references held in component leaf.
func (s *State) allocBound(leaf string) string {
	if cur, ok := s.heap[leaf]; ok && strings.HasSuffix(cur, "@0|") && s.run.entryAlloc != "" {
		return s.run.entryAlloc
	}
	return s.ghost["alloc"]
}


func pathOutside(v *V, path []int) bool {
	for _, i := range path {
		if v == nil || i >= len(v.F) {
			return true
		}
		v = v.F[i]
	}
	return false
}


func (r *FnRun) noteOnce(msg string) {
	if r.notes == nil {
		r.notes = map[string]bool{}
	}
	r.notes[msg] = true
}
