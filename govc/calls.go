package main

// Calls: by contract, by model, inlined; interface invocations; goroutines, channels, select.

import (
	"bytes"
	"crypto/sha256"
	"encoding/hex"
	"fmt"
	"go/types"
	"sort"
	"strings"

	"golang.org/x/tools/go/ssa"
	"golang.org/x/tools/go/ssa/ssautil"
)

func (e *Engine) relName(f *ssa.Function) string {
	p := pkgOfFn(f)
	return f.RelString(p)
}

func (e *Engine) contractSetFor(f *ssa.Function) *ContractSet {
	p := pkgOfFn(f)
	if p == nil {
		return nil
	}
	return e.contracts[p.Path()]
}

func (e *Engine) contractFor(f *ssa.Function) *FuncContract {
	cs := e.contractSetFor(f)
	if cs == nil {
		return nil
	}
	return cs.Funcs[e.relName(f)]
}

func ifaceMethodKey(c *ssa.CallCommon) string {
	t := c.Value.Type()
	name := types.TypeString(t, func(p *types.Package) string { return p.Name() })
	return name + "." + c.Method.Name()
}

func (r *FnRun) ifaceContract(c *ssa.CallCommon) *FuncContract {
	n, ok := c.Value.Type().(*types.Named)
	if !ok {
		return nil
	}
	cs := r.eng.contracts[pkgPathOf(n)]
	if cs == nil {
		return nil
	}
	return cs.Funcs["iface:"+n.Obj().Name()+"."+c.Method.Name()]
}

func (r *FnRun) functypeContract(t types.Type) *FuncContract {
	n, ok := t.(*types.Named)
	if !ok {
		return nil
	}
	cs := r.eng.contracts[pkgPathOf(n)]
	if cs == nil {
		return nil
	}
	return cs.Funcs["functype:"+n.Obj().Name()]
}

// functypeContractForValue finds a functype contract for an unknown function value: by named type, or by the
// struct field it was loaded from ("Type.field").
func (r *FnRun) functypeContractForValue(v ssa.Value) (*FuncContract, *ContractSet, string) {
	if fc := r.functypeContract(v.Type()); fc != nil {
		n := v.Type().(*types.Named)
		return fc, r.eng.contracts[pkgPathOf(n)], n.Obj().Name()
	}
	if n, ok := v.Type().(*types.Named); ok {
		return nil, nil, n.Obj().Name()
	}
	if u, ok := v.(*ssa.UnOp); ok {
		if fa, ok := u.X.(*ssa.FieldAddr); ok {
			st := fa.X.Type().Underlying().(*types.Pointer).Elem()
			if n, ok := st.(*types.Named); ok {
				key := n.Obj().Name() + "." + r.structFields(st).Field(fa.Field).Name()
				cs := r.eng.contracts[pkgPathOf(n)]
				if cs != nil {
					return cs.Funcs["functype:"+key], cs, key
				}
				return nil, nil, key
			}
		}
	}
	return nil, nil, "func"
}

func (r *FnRun) doCall(st *State, fr *frame, instr ssa.Instruction, c *ssa.CallCommon, k func(*State, *V)) {
	var args []*V
	for _, a := range c.Args {
		args = append(args, r.val(st, a))
	}
	var fnv *V
	if c.IsInvoke() {
		fnv = r.val(st, c.Value)
	} else if _, isB := c.Value.(*ssa.Builtin); !isB {
		fnv = r.val(st, c.Value)
	}
	r.doCallWith(st, fr, instr, c, fnv, args, k)
}

func resultV(st *State, sig *types.Signature, res []*V) *V {
	switch len(res) {
	case 0:
		return &V{K: KTuple, T: sig.Results()}
	case 1:
		return res[0]
	}
	return &V{K: KTuple, T: sig.Results(), F: res}
}

func (r *FnRun) symResults(st *State, sig *types.Signature, prefix string) []*V {
	var out []*V
	for i := 0; i < sig.Results().Len(); i++ {
		out = append(out, st.sym(fmt.Sprintf("%s.r%d", prefix, i), sig.Results().At(i).Type()))
	}
	return out
}

func (r *FnRun) doCallWith(st *State, fr *frame, instr ssa.Instruction, c *ssa.CallCommon, fnv *V, args []*V, k func(*State, *V)) {
	if c.IsInvoke() {
		r.invoke(st, fr, instr, c, fnv, args, k)
		return
	}
	switch f := c.Value.(type) {
	case *ssa.Builtin:
		r.builtin(st, fr, instr, f, c, args, k)
		return
	case *ssa.Function:
		r.callStatic(st, fr, instr, f, nil, args, k)
		return
	}
	if fnv != nil && fnv.Fn != nil {
		r.callStatic(st, fr, instr, fnv.Fn, fnv.Binds, args, k)
		return
	}
	r.callUnknown(st, fr, instr, c, fnv, args, k)
}

func (r *FnRun) inStack(st *State, f *ssa.Function) bool {
	for _, g := range st.stack {
		if g == f {
			return true
		}
	}
	return false
}

// atCallAsserts checks "atcall callee#n" clauses of the function being executed.
func (r *FnRun) atCallAsserts(st *State, fr *frame, instr ssa.Instruction, f *ssa.Function, args []*V) {
	if fr.fc == nil {
		return
	}
	name := f.String()
	if r.eng.isRepoPkg(pkgOfFn(f)) {
		name = r.eng.relName(f)
	} else if i := strings.LastIndex(name, "/"); i >= 0 && strings.HasPrefix(name, "(*") {
		name = "(*" + name[i+1:]
	} else if i >= 0 {
		name = name[i+1:]
	}
	has := false
	for _, c := range fr.fc.Clauses {
		if c.Kind == "atcall" && c.Name == name {
			has = true
		}
	}
	if !has {
		return
	}
	st.callOrd["atcall:"+name]++
	ord := st.callOrd["atcall:"+name]
	site := 0
	if fr.top {
		site = r.staticSite(name, instr)
	}
	for _, c := range fr.fc.Clauses {
		if c.Kind == "atcall" && c.Name == name && ((!c.Static && c.N == ord) || (c.Static && c.N == site)) {
			extra := map[string]*V{}
			for i, a := range args {
				extra[fmt.Sprintf("$arg%d", i)] = a
			}
			t, err := r.evalClause(st, fr, c, extra, "atcall "+name)
			if err != nil {
				r.errs = append(r.errs, err.Error())
				continue
			}
			anchor := fmt.Sprintf("call %s#%d", name, ord)
			if c.Static {
				anchor = fmt.Sprintf("call %s@%d", name, site)
			}
			r.oblige(st, "atcall", lbl(c, name), c.Tags, t, r.posOf(instr), anchor)
		}
	}
}

func (r *FnRun) callStatic(st *State, fr *frame, instr ssa.Instruction, f *ssa.Function, binds []*V, args []*V, k func(*State, *V)) {
	r.atCallAsserts(st, fr, instr, f, args)
	key := f.String()
	if m, ok := extModels[key]; ok {
		r.modelsUsed[key] = true
		m.fn(r, st, fr, instr, args, k)
		return
	}
	fc := r.eng.contractFor(f)
	if fc != nil {
		if fc.Iterator {
			r.rangeLoop(st, fr, instr, f, fc, args, k)
			return
		}
		r.callContractB(st, fr, instr, f, fc, r.eng.contractSetFor(f), binds, args, k)
		return
	}
	repo := r.eng.isRepoPkg(pkgOfFn(f))
	if len(f.Blocks) > 0 && (repo || f.Synthetic != "") && !r.inStack(st, f) && len(st.stack) < maxInlineDepth {
		if repo && f.Synthetic == "" && f.Parent() == nil {
			r.inlined[r.eng.relName(f)] = true
		}
		r.inline(st, fr, f, fc, binds, args, k)
		return
	}
	if repo {
		r.abstractNote(st, "call to uncontracted repository function "+r.eng.relName(f)+" (recursive or too deep to inline)")
		st.havocAllHeap(nil)
		st.eventsAdvance()
		st.bumpAlloc()
	} else {
		r.unmodelled[key] = true
	}
	res := r.symResults(st, f.Signature, "ext."+f.Name())
	k(st, resultV(st, f.Signature, res))
}

func (r *FnRun) inline(st *State, fr *frame, f *ssa.Function, fc *FuncContract, binds []*V, args []*V, k func(*State, *V)) {
	nf := &frame{fn: f, fc: fc, cs: r.eng.contractSetFor(f), depth: fr.depth + 1}
	for i, p := range f.Params {
		if i < len(args) {
			st.regs[p] = args[i]
		}
	}
	for i, fv := range f.FreeVars {
		if i < len(binds) {
			st.regs[fv] = binds[i]
		}
	}
	st.stack = append(append([]*ssa.Function(nil), st.stack...), f)
	for len(st.deferStacks) <= nf.depth {
		st.deferStacks = append(st.deferStacks, nil)
	}
	st.deferStacks = append([][]*deferRec(nil), st.deferStacks...)
	st.deferStacks[nf.depth] = nil
	nf.onReturn = func(s *State, res []*V) {
		s.stack = s.stack[:len(s.stack)-1]
		k(s, resultV(s, f.Signature, res))
	}
	r.exec(st, nf, f.Blocks[0], 0)
}

// bindNames maps contract parameter names (positional, receiver optional) and source names to argument values.
func bindNames(fc *FuncContract, f *ssa.Function, sig *types.Signature, hasRecv bool, args []*V) map[string]*V {
	vars := map[string]*V{}
	if f != nil {
		for i, p := range f.Params {
			if i < len(args) && p.Name() != "" && p.Name() != "_" {
				vars[p.Name()] = args[i]
			}
		}
	}
	if fc != nil {
		n := len(fc.Params)
		off := len(args) - n
		if off < 0 {
			off = 0
		}
		for i, name := range fc.Params {
			if off+i < len(args) && name != "_" {
				vars[name] = args[off+i]
			}
		}
	}
	return vars
}

func bindResults(vars map[string]*V, fc *FuncContract, sig *types.Signature, res []*V) {
	for i, v := range res {
		vars[fmt.Sprintf("result%d", i)] = v
		if n := sig.Results().At(i).Name(); n != "" && n != "_" {
			vars[n] = v
		}
	}
	if len(res) == 1 {
		vars["result"] = res[0]
	}
	if fc != nil {
		for i, name := range fc.Results {
			if i < len(res) && name != "_" {
				vars[name] = res[i]
			}
		}
	}
}

func (r *FnRun) evalIn(st, old *State, vars map[string]*V, pkg *types.Package, cs *ContractSet, e *Expr, what string, file string, line int) (t string, err error) {
	defer func() {
		if x := recover(); x != nil {
			if ee, ok := x.(evalError); ok {
				err = fmt.Errorf("%s:%d: %s", file, line, ee.msg)
				return
			}
			panic(x)
		}
	}()
	ctx := &EvalCtx{run: r, st: st, old: old, vars: vars, pkg: pkg, cs: cs, what: what, foreign: true}
	return ctx.boolOf(e), nil
}

func (r *FnRun) evalValIn(st, old *State, vars map[string]*V, pkg *types.Package, cs *ContractSet, e *Expr, what string, file string, line int) (v *V, err error) {
	defer func() {
		if x := recover(); x != nil {
			if ee, ok := x.(evalError); ok {
				err = fmt.Errorf("%s:%d: %s", file, line, ee.msg)
				return
			}
			panic(x)
		}
	}()
	ctx := &EvalCtx{run: r, st: st, old: old, vars: vars, pkg: pkg, cs: cs, what: what, foreign: true}
	return ctx.eval(e), nil
}

func (r *FnRun) applyAssigns(st *State, fc *FuncContract) {
	if fc.Pure {
		return
	}
	if !fc.HasAssigns {
		st.havocAllHeap(nil)
		st.eventsAdvance()
		st.ctxDoneAdvance()
		st.bumpAlloc()
		return
	}
	ev := false
	for _, a := range fc.Assigns {
		switch a {
		case "ev":
			ev = true
		case "ctxdone":
			st.ctxDoneAdvance()
		default:
			st.havocFamily(a)
		}
	}
	if ev {
		st.eventsAdvance()
	}
	st.bumpAlloc()
}

func (r *FnRun) callContract(st *State, fr *frame, instr ssa.Instruction, f *ssa.Function, fc *FuncContract, cs *ContractSet, args []*V, k func(*State, *V)) {
	r.callContractB(st, fr, instr, f, fc, cs, nil, args, k)
}

func (r *FnRun) callContractB(st *State, fr *frame, instr ssa.Instruction, f *ssa.Function, fc *FuncContract, cs *ContractSet, binds []*V, args []*V, k func(*State, *V)) {
	callee := r.eng.relName(f)
	st.callOrd[callee]++
	ord := st.callOrd[callee]
	anchor := fmt.Sprintf("call %s#%d", callee, ord)
	pkg := pkgOfFn(f)
	vars := bindNames(fc, f, f.Signature, f.Signature.Recv() != nil, args)
	for i, fv := range f.FreeVars {
		if i < len(binds) {
			vars[fv.Name()] = r.freeVarContent(st, fv, binds[i])
		}
	}
	r.calleesByContract[callee] = true
	if r.calleeKeys == nil {
		r.calleeKeys = map[string]bool{}
	}
	r.calleeKeys[pkg.Name()+":"+callee] = true
	if fc.Trusted {
		if r.trustedCallees == nil {
			r.trustedCallees = map[string]bool{}
		}
		r.trustedCallees[pkg.Name()+":"+callee] = true
		r.noteTrustedBody(pkg.Name()+":"+callee, f)
	}
	// ghost parameters: witnesses supplied by the caller's contract, else unconstrained
	for _, gp := range fc.GhostParams {
		var w *V
		wfc := fr.fc
		if wfc == nil {
			wfc = r.fc // inlined closure: witnesses come from the enclosing function's contract
		}
		if wfc != nil {
			for _, g := range wfc.Ghosts {
				if g.Anchor == "witness" && g.Callee == callee && g.N == ord {
					if e, ok := g.With[gp.Name]; ok {
						ctx := &EvalCtx{run: r, st: st, old: r.entry, vars: map[string]*V{}, oldVars: st.params, fn: fr.fn, pkg: fr.fn.Pkg.Pkg, cs: fr.cs, what: "ghost witness"}
						for k, v := range st.ghostParams {
							ctx.vars[k] = v
						}
						v, err := safeVal(ctx, e, wfc.File, g.Line)
						if err != nil {
							r.errs = append(r.errs, err.Error())
						} else {
							w = v
						}
					}
				}
			}
		}
		if w == nil {
			t := resolveTypeIn(pkg, gp.Type)
			if t == nil {
				r.errs = append(r.errs, fmt.Sprintf("%s: unknown ghostparam type %s", callee, gp.Type))
				continue
			}
			w = st.sym("ghost."+gp.Name, t)
		}
		vars[gp.Name] = w
	}
	pre := st.clone()
	for _, c := range fc.Clauses {
		if c.Kind == "let" {
			v, err := r.evalValIn(pre, nil, vars, pkg, cs, c.E, "let "+c.Name+" of "+callee, fc.File, c.Line)
			if err != nil {
				r.errs = append(r.errs, err.Error())
				continue
			}
			vars[c.Name] = v
		}
	}
	for _, c := range fc.Clauses {
		if c.Kind != "requires" {
			continue
		}
		t, err := r.evalIn(st, nil, vars, pkg, cs, c.E, "requires of "+callee, fc.File, c.Line)
		if err != nil {
			r.errs = append(r.errs, err.Error())
			continue
		}
		r.oblige(st, "pre", callee+"."+lbl(c, fmt.Sprintf("requires@%d", c.Line)), c.Tags, t, r.posOf(instr), anchor)
		if !isDiscipline(c.E) {
			st.assume(t)
		}
	}
	r.applyAssigns(st, fc)
	r.preserveUnreachableCounters(st, pre, f)
	res := r.symResults(st, f.Signature, callee)
	bindResults(vars, fc, f.Signature, res)
	for _, c := range fc.Clauses {
		if c.Kind != "ensures" {
			continue
		}
		t, err := r.evalIn(st, pre, vars, pkg, cs, c.E, "ensures of "+callee, fc.File, c.Line)
		if err != nil {
			r.errs = append(r.errs, err.Error())
			continue
		}
		st.assume(t)
	}
	// ghost: number of calls made to this function (by contract) so far
	{
		id := r.eng.strID("fn:" + callee)
		st.writeLeaf("ncall", []string{id}, "Int", "(+ "+sSel(st.comp("ncall", 1, "Int"), id)+" 1)")
	}
	r.ghostAfterCall(st, fr, callee, ord)
	st.trail = append(st.trail, "call "+callee)
	k(st, resultV(st, f.Signature, res))
}

// ghostAfterCall applies "ghost after call f#n havoc Fam: expr" updates of the function being verified.
func (r *FnRun) ghostAfterCall(st *State, fr *frame, callee string, ord int) {
	if fr.fc == nil {
		return
	}
	for _, g := range fr.fc.Ghosts {
		if g.Anchor != "aftercall" || g.Callee != callee || g.N != ord {
			continue
		}
		pre := st.clone()
		for _, fam := range g.Havoc {
			st.havocFamily(fam)
		}
		ctx := &EvalCtx{run: r, st: st, old: pre, vars: map[string]*V{}, oldVars: st.params, fn: fr.fn, pkg: fr.fn.Pkg.Pkg, cs: fr.cs, what: "ghost update"}
		func() {
			defer func() {
				if x := recover(); x != nil {
					if ee, ok := x.(evalError); ok {
						r.errs = append(r.errs, fmt.Sprintf("%s:%d: %s", fr.fc.File, g.Line, ee.msg))
						return
					}
					panic(x)
				}
			}()
			st.assume(ctx.boolOf(g.Value))
		}()
	}
}

// rangeLoop implements the callback-loop rule for iterator functions.
func (r *FnRun) rangeLoop(st *State, fr *frame, instr ssa.Instruction, f *ssa.Function, fc *FuncContract, args []*V, k func(*State, *V)) {
	callee := r.eng.relName(f)
	st.callOrd["rangeloop"]++
	ord := st.callOrd["rangeloop"]
	r.calleesByContract[callee] = true
	pkg := pkgOfFn(f)
	if r.calleeKeys == nil {
		r.calleeKeys = map[string]bool{}
	}
	r.calleeKeys[pkg.Name()+":"+callee] = true
	if fc.Trusted {
		if r.trustedCallees == nil {
			r.trustedCallees = map[string]bool{}
		}
		r.trustedCallees[pkg.Name()+":"+callee] = true
		r.noteTrustedBody(pkg.Name()+":"+callee, f)
	}
	vars := bindNames(fc, f, f.Signature, true, args)
	ve, err := parseExpr(fc.IterView)
	if err != nil {
		r.errs = append(r.errs, fmt.Sprintf("%s:%d: %v", fc.File, fc.Line, err))
		return
	}
	hv, err := r.evalValIn(st, nil, vars, pkg, r.eng.contractSetFor(f), ve, "iterator view of "+callee, fc.File, fc.Line)
	if err != nil || hv.K != KMapH {
		r.errs = append(r.errs, fmt.Sprintf("%s:%d: iterator view does not evaluate to a map view (%v)", fc.File, fc.Line, err))
		return
	}
	h := hv.L2
	// the callback: last argument
	cb := args[len(args)-1]
	if cb.Fn == nil {
		r.abstractNote(st, "iterator called with an unknown callback")
		st.havocAllHeap(nil)
		k(st, resultV(st, f.Signature, nil))
		return
	}
	var invs []*Clause
	if fr.fc != nil {
		for _, c := range fr.fc.Clauses {
			if c.Kind == "rangeinv" && c.N == ord {
				invs = append(invs, c)
			}
		}
	}
	emptySet := "((as const (Array Int Bool)) false)"
	st.iterSeen[ord] = emptySet
	for _, c := range invs {
		t, err := r.evalClause(st, fr, c, nil, "rangeloop invariant")
		if err != nil {
			r.errs = append(r.errs, err.Error())
			continue
		}
		r.oblige(st, "inv-established", lbl(c, fmt.Sprintf("rangeloop%d", ord)), c.Tags, t, fmt.Sprintf("%s:%d", fr.fc.File, c.Line), fmt.Sprintf("rangeloop %d", ord))
	}
	ms := newModset()
	r.modsetStatic(ms, cb.Fn, 1)
	if ms.fams[h.fam] {
		r.abstractNote(st, "iterator callback modifies the iterated view")
	}
	domOf := func(s *State) string { return sSel(s.comp(h.fam+"#dom", 2, "Bool"), h.ref) }
	arrive := func(base *State) (*State, string) {
		s := base.clone()
		r.applyHavoc(s, ms)
		seen := r.fresh("seen", "(Array Int Bool)")
		s.iterSeen[ord] = seen
		q := mangle("q:k")
		s.assume("(forall ((" + q + " Int)) (! (=> (select " + seen + " " + q + ") (select " + domOf(s) + " " + q + ")) :pattern ((select " + seen + " " + q + "))))")
		for _, c := range invs {
			t, err := r.evalClause(s, fr, c, nil, "rangeloop invariant")
			if err == nil {
				s.assume(t)
			}
		}
		return s, seen
	}
	// one iteration from an arbitrary point
	{
		s, seen := arrive(st)
		key := r.fresh("iterkey", "Int")
		s.assume(sAnd(sSel(domOf(s), key), sNot(sSel(seen, key))))
		kv := vInt(key, h.kt)
		vv := s.mapGet(h, key)
		if vv.K == KInt && isRefType(h.vt) {
			s.assume(sAnd("(> "+vv.S+" 0)", "(< "+vv.S+" "+s.ghost["alloc"]+")"))
		}
		s.trail = append(s.trail, fmt.Sprintf("rangeloop%d-iter", ord))
		sig := cb.Fn.Signature
		cbArgs := []*V{kv, vv}
		if sig.Params().Len() != 2 {
			r.abstractNote(s, "iterator callback with unexpected arity")
		}
		r.callStatic(s, fr, instr, cb.Fn, cb.Binds, cbArgs, func(s2 *State, res *V) {
			cont := res.S
			// returned true: invariant must hold with the key added
			if cont != "false" {
				s3 := s2.clone()
				s3.assume(cont)
				ns := r.fresh("seen", "(Array Int Bool)")
				s3.assume(sEq(ns, sSto(seen, key, "true")))
				s3.iterSeen[ord] = ns
				for _, c := range invs {
					t, err := r.evalClause(s3, fr, c, nil, "rangeloop invariant")
					if err != nil {
						r.errs = append(r.errs, err.Error())
						continue
					}
					r.oblige(s3, "inv-preserved", lbl(c, fmt.Sprintf("rangeloop%d", ord)), c.Tags, t, fmt.Sprintf("%s:%d", fr.fc.File, c.Line), fmt.Sprintf("rangeloop %d", ord))
				}
			}
			// returned false: the iteration stops, execution continues after the call
			if cont != "true" {
				s4 := s2.clone()
				s4.assume(sNot(cont))
				s4.trail = append(s4.trail, fmt.Sprintf("rangeloop%d-break", ord))
				k(s4, resultV(s4, f.Signature, nil))
			}
		})
	}
	// all entries visited
	{
		s, seen := arrive(st)
		q := mangle("q:k")
		s.assume("(forall ((" + q + " Int)) (! (=> (select " + domOf(s) + " " + q + ") (select " + seen + " " + q + ")) :pattern ((select " + domOf(s) + " " + q + "))))")
		s.trail = append(s.trail, fmt.Sprintf("rangeloop%d-done", ord))
		k(s, resultV(s, f.Signature, nil))
	}
}

// ---- user code: interface methods and function values ----

var benignIfaces = map[string]bool{
	"context.Context": true, "error": true, "fmt.Stringer": true, "reflect.Type": true, "hash.Hash": true,
	"io.Reader": true,
}

func identityLeaves(v *V) []string {
	switch v.K {
	case KIface:
		return []string{v.Val}
	case KSlice:
		return []string{v.Arr}
	case KInt:
		return []string{v.S}
	case KBool:
		return []string{sIte(v.S, "1", "0")}
	case KLoc:
		if v.L.Ref != "" {
			return []string{v.L.Ref}
		}
	}
	return []string{"0"}
}

func callEventArgs(recv *V, args []*V, res []*V) []string {
	out := make([]string, 12)
	for i := range out {
		out[i] = "0"
	}
	if recv != nil {
		switch recv.K {
		case KIface:
			out[0], out[1] = recv.Val, recv.Tag
		default:
			out[0] = identityLeaves(recv)[0]
		}
	}
	i := 2
	for _, a := range args {
		if i > 4 {
			break
		}
		out[i] = identityLeaves(a)[0]
		i++
	}
	j := 5
	for _, v := range res {
		for _, l := range intLeaves(v) {
			if j > 11 {
				break
			}
			out[j] = l
			j++
		}
	}
	return out
}

func (r *FnRun) cbfreeCheck(st *State, fr *frame, instr ssa.Instruction, what string) {
	held := st.comp("held", 1, "Int")
	for _, pp := range sortedKeys(r.eng.contracts) {
		cs := r.eng.contracts[pp]
		for _, tname := range sortedKeys(cs.Types) {
			td := cs.Types[tname]
			for _, lf := range sortedKeys(td.CallbackFree) {
				key := mangle("fa:" + r.tnByName(pp, tname) + "." + lf)
				id, ok := r.eng.faIDs[key]
				if !ok {
					// the lock has never been touched on any path of this run so far: nothing can be held
					continue
				}
				goal := fmt.Sprintf("(forall ((l Int)) (! (=> (= (objkind l) %d) (= (select %s l) 0)) :pattern ((select %s l))))", id, held, held)
				r.oblige(st, "callback-free", tname+"."+lf, []string{"C12"}, goal, r.posOf(instr), what)
			}
		}
	}
}

func (r *FnRun) typeByName(pkgPath, tname string) types.Type {
	for _, p := range r.eng.loadedPkgs {
		if p.Pkg.Path() == pkgPath {
			if o := p.Pkg.Scope().Lookup(tname); o != nil {
				return o.Type()
			}
		}
	}
	return nil
}

func (r *FnRun) tnByName(pkgPath, tname string) string {
	if r.fn.Pkg.Pkg.Path() == pkgPath {
		return tname
	}
	for _, p := range r.eng.loadedPkgs {
		if p.Pkg.Path() == pkgPath {
			return p.Pkg.Name() + "." + tname
		}
	}
	return tname
}

func (r *FnRun) invoke(st *State, fr *frame, instr ssa.Instruction, c *ssa.CallCommon, recv *V, args []*V, k func(*State, *V)) {
	key := ifaceMethodKey(c)
	if m, ok := ifaceModels[key]; ok {
		r.modelsUsed["iface "+key] = true
		m.fn(r, st, fr, instr, append([]*V{recv}, args...), k)
		return
	}
	sig := c.Signature()
	fc := r.ifaceContract(c)
	r.nilCheckIface(st, fr, instr, recv, key)
	if fc != nil && fc.Pure {
		// deterministic function of the receiver (assumption recorded by the contract file)
		fn := mangle("pure:" + fc.Name)
		r.eng.declare("(declare-fun " + fn + " (Int Int) Int)")
		r.pureIfaces[fc.Name] = true
		res := r.symResults(st, sig, key)
		if len(res) == 1 && res[0].K == KInt {
			st.assume(sEq(res[0].S, "("+fn+" "+recv.Tag+" "+recv.Val+")"))
		} else if len(res) == 1 && res[0].K == KBool {
			st.assume(sEq(res[0].S, sEq("("+fn+" "+recv.Tag+" "+recv.Val+")", "1")))
		} else if len(res) == 1 && res[0].K == KIface {
			fnt := mangle("pure:" + fc.Name + "#tag")
			r.eng.declare("(declare-fun " + fnt + " (Int Int) Int)")
			st.assume(sEq(res[0].Tag, "("+fnt+" "+recv.Tag+" "+recv.Val+")"))
			st.assume(sEq(res[0].Val, "("+fn+" "+recv.Tag+" "+recv.Val+")"))
		}
		vars := bindNames(fc, nil, sig, true, args)
		vars["recv"] = recv
		bindResults(vars, fc, sig, res)
		r.assumeEnsures(st, st, fc, vars, c)
		k(st, resultV(st, sig, res))
		return
	}
	tname := types.TypeString(c.Value.Type(), func(p *types.Package) string { return p.Name() })
	if !benignIfaces[tname] {
		r.cbfreeCheck(st, fr, instr, "call "+key)
	}
	r.userCalls[key] = true
	pre := st.clone()
	if fc != nil {
		vars := bindNames(fc, nil, sig, true, args)
		vars["recv"] = recv
		for _, cl := range fc.Clauses {
			if cl.Kind != "requires" {
				continue
			}
			t, err := r.evalIn(st, nil, vars, r.ifacePkg(c), r.ifaceCS(c), cl.E, "requires of "+key, fc.File, cl.Line)
			if err != nil {
				r.errs = append(r.errs, err.Error())
				continue
			}
			r.oblige(st, "pre", key+"."+lbl(cl, fmt.Sprintf("requires@%d", cl.Line)), cl.Tags, t, r.posOf(instr), "call "+key)
			if !isDiscipline(cl.E) {
				st.assume(t)
			}
		}
		r.applyAssigns(st, fc)
	} else {
		st.bumpAlloc()
	}
	st.ctxDoneAdvance()
	res := r.symResults(st, sig, key)
	st.emit("call:"+key, callEventArgs(recv, args, res)...)
	if fc != nil {
		vars := bindNames(fc, nil, sig, true, args)
		vars["recv"] = recv
		bindResults(vars, fc, sig, res)
		r.assumeEnsures(st, pre, fc, vars, c)
	}
	st.trail = append(st.trail, "invoke "+key)
	k(st, resultV(st, sig, res))
}

func (r *FnRun) ifacePkg(c *ssa.CallCommon) *types.Package {
	if n, ok := c.Value.Type().(*types.Named); ok && n.Obj().Pkg() != nil {
		return n.Obj().Pkg()
	}
	return r.fn.Pkg.Pkg
}

func (r *FnRun) ifaceCS(c *ssa.CallCommon) *ContractSet {
	if n, ok := c.Value.Type().(*types.Named); ok {
		return r.eng.contracts[pkgPathOf(n)]
	}
	return r.cs
}

func (r *FnRun) assumeEnsures(st, pre *State, fc *FuncContract, vars map[string]*V, c *ssa.CallCommon) {
	for _, cl := range fc.Clauses {
		if cl.Kind != "ensures" {
			continue
		}
		var pkg *types.Package
		var cs *ContractSet
		if c != nil && c.IsInvoke() {
			pkg, cs = r.ifacePkg(c), r.ifaceCS(c)
		} else {
			pkg, cs = r.fn.Pkg.Pkg, r.cs
		}
		t, err := r.evalIn(st, pre, vars, pkg, cs, cl.E, "ensures of "+fc.Name, fc.File, cl.Line)
		if err != nil {
			r.errs = append(r.errs, err.Error())
			continue
		}
		st.assume(t)
	}
}

func (r *FnRun) nilCheckIface(st *State, fr *frame, instr ssa.Instruction, recv *V, what string) {
	if recv == nil || recv.K != KIface {
		return
	}
	if r.safetyNil && fr.top {
		r.oblige(st, "safety", "nil-iface-call", nil, sNot(sEq(recv.Tag, "0")), r.posOf(instr), what)
	}
	st.assume(sNot(sEq(recv.Tag, "0")))
}

func (r *FnRun) callUnknown(st *State, fr *frame, instr ssa.Instruction, c *ssa.CallCommon, fnv *V, args []*V, k func(*State, *V)) {
	sig := c.Signature()
	fc, cs, key := r.functypeContractForValue(c.Value)
	if r.safetyNil && fr.top {
		r.oblige(st, "safety", "nil-func-call", nil, sNot(sEq(fnv.S, "0")), r.posOf(instr), key)
	}
	st.assume(sNot(sEq(fnv.S, "0")))
	pkg := r.fn.Pkg.Pkg
	if fc != nil && fc.Pure {
		res := r.symResults(st, sig, key)
		vars := bindNames(fc, nil, sig, false, args)
		bindResults(vars, fc, sig, res)
		for _, cl := range fc.Clauses {
			if cl.Kind == "ensures" {
				if t, err := r.evalIn(st, st, vars, pkg, cs, cl.E, "ensures of "+key, fc.File, cl.Line); err == nil {
					st.assume(t)
				} else {
					r.errs = append(r.errs, err.Error())
				}
			}
		}
		k(st, resultV(st, sig, res))
		return
	}
	internal := fc != nil && fc.ClosedWorld
	if !internal {
		r.cbfreeCheck(st, fr, instr, "call func "+key)
		r.userCalls["func "+key] = true
	} else {
		r.closedWorld[key] = true
	}
	pre := st.clone()
	vars := bindNames(fc, nil, sig, false, args)
	if fc != nil {
		for _, cl := range fc.Clauses {
			if cl.Kind != "requires" {
				continue
			}
			t, err := r.evalIn(st, nil, vars, pkg, cs, cl.E, "requires of "+key, fc.File, cl.Line)
			if err != nil {
				r.errs = append(r.errs, err.Error())
				continue
			}
			r.oblige(st, "pre", key+"."+lbl(cl, fmt.Sprintf("requires@%d", cl.Line)), cl.Tags, t, r.posOf(instr), "call func "+key)
			st.assume(t)
		}
		r.applyAssigns(st, fc)
	} else {
		st.bumpAlloc()
	}
	res := r.symResults(st, sig, key)
	if !internal {
		st.ctxDoneAdvance()
		st.emit("callfn:"+key, callEventArgs(fnv, args, res)...)
	}
	if fc != nil {
		bindResults(vars, fc, sig, res)
		for _, cl := range fc.Clauses {
			if cl.Kind == "ensures" {
				if t, err := r.evalIn(st, pre, vars, pkg, cs, cl.E, "ensures of "+key, fc.File, cl.Line); err == nil {
					st.assume(t)
				} else {
					r.errs = append(r.errs, err.Error())
				}
			}
		}
	}
	st.trail = append(st.trail, "callfn "+key)
	k(st, resultV(st, sig, res))
}

// ---- builtins ----

func (r *FnRun) builtin(st *State, fr *frame, instr ssa.Instruction, f *ssa.Builtin, c *ssa.CallCommon, args []*V, k func(*State, *V)) {
	var rt types.Type
	if v, ok := instr.(ssa.Value); ok {
		rt = v.Type()
	}
	switch f.Name() {
	case "len":
		a := args[0]
		switch {
		case a.K == KSlice:
			k(st, vInt(a.Len, rt))
		case isMapType(c.Args[0].Type()):
			h := r.goMapHandle(a, c.Args[0].Type())
			card := sIte(sEq(h.ref, "0"), "0", sSel(st.comp(h.fam+"#card", 1, "Int"), h.ref))
			st.assume("(>= " + card + " 0)")
			// a map is empty exactly when its domain is
			dom := sSel(st.comp(h.fam+"#dom", 2, "Bool"), h.ref)
			q := mangle("q:k")
			st.assume(sImp(sNot(sEq(h.ref, "0")), sEq(sEq(card, "0"), "(forall (("+q+" Int)) (! (not (select "+dom+" "+q+")) :pattern ((select "+dom+" "+q+"))))")))
			k(st, vInt(card, rt))
		case isStringType(c.Args[0].Type()):
			k(st, vInt(st.strLen(a.S), rt))
		default:
			r.abstractNote(st, "len of "+c.Args[0].Type().String())
			k(st, st.sym("len", rt))
		}
	case "cap":
		if args[0].K == KSlice {
			k(st, vInt(args[0].Cap, rt))
		} else {
			k(st, st.sym("cap", rt))
		}
	case "append":
		r.doAppendK(st, fr, instr, c, args, rt, k)
	case "copy":
		dst, src := args[0], args[1]
		n := r.fresh("copyn", "Int")
		if src.K == KSlice {
			st.assume(sEq(n, sIte("(< "+dst.Len+" "+src.Len+")", dst.Len, src.Len)))
			et := c.Args[0].Type().Underlying().(*types.Slice).Elem()
			r.copyElems(st, et, dst.Arr, dst.Off, src.Arr, src.Off, n)
		} else {
			st.assume("(>= " + n + " 0)")
			r.abstractNote(st, "copy from string")
		}
		k(st, vInt(n, rt))
	case "delete":
		h := r.goMapHandle(args[0], c.Args[0].Type())
		key, ok := r.mapKey(st, args[1])
		if !ok {
			r.abstractNote(st, "delete with unsupported key")
		} else {
			r.mapAccessCheck(st, fr, instr, c.Args[0], true)
			// delete on a nil map is a no-op
			s1 := st
			s1.assumeNothing()
			if sEq(h.ref, "0") != "true" {
				st.mapDelGuarded(h, key)
			}
		}
		k(st, &V{K: KTuple})
	case "close":
		st.emit("close", args[0].S)
		k(st, &V{K: KTuple})
	case "ssa:deferstack":
		k(st, vInt("0", rt))
	case "ssa:wrapnilchk":
		k(st, args[0])
	case "print", "println":
		k(st, &V{K: KTuple})
	case "min", "max":
		a, b := args[0].S, args[1].S
		if f.Name() == "min" {
			k(st, vInt(sIte("(< "+a+" "+b+")", a, b), rt))
		} else {
			k(st, vInt(sIte("(> "+a+" "+b+")", a, b), rt))
		}
	default:
		r.abstractNote(st, "unsupported builtin "+f.Name())
		if rt != nil {
			k(st, st.sym("builtin", rt))
		} else {
			k(st, &V{K: KTuple})
		}
	}
}

func (s *State) assumeNothing() {}

func (s *State) mapDelGuarded(h *mapHandle, key string) {
	// delete(m,k) with m possibly nil: nil maps have an empty domain by convention (never written)
	s.mapDel(h, key)
}

// copyElems: dst[doff+i] = src[soff+i] for 0 <= i < n (quantified frame)
func (r *FnRun) copyElems(st *State, et types.Type, darr, doff, sarr, soff, n string) {
	fam := "elem:" + r.tn(et)
	var leafs []string
	switch r.eng.shape(et) {
	case KInt, KBool:
		leafs = []string{fam}
	case KIface:
		leafs = []string{fam + "#tag", fam + "#val"}
	case KSlice:
		leafs = []string{fam + "#arr", fam + "#off", fam + "#len", fam + "#cap"}
	default:
		r.abstractNote(st, "copy/append of struct elements")
		return
	}
	ls := "Int"
	if r.eng.shape(et) == KBool {
		ls = "Bool"
	}
	for _, leaf := range leafs {
		old := st.comp(leaf, 2, ls)
		st.havocLeaf(leaf)
		nw := st.comp(leaf, 2, ls)
		a, i := mangle("q:a"), mangle("q:i")
		inDst := sAnd(sEq(a, darr), "(<= "+doff+" "+i+")", "(< "+i+" (+ "+doff+" "+n+"))")
		srcIdx := "(+ " + soff + " (- " + i + " " + doff + "))"
		st.assume("(forall ((" + a + " Int) (" + i + " Int)) (! (= (select (select " + nw + " " + a + ") " + i + ") (ite " + inDst +
			" (select (select " + old + " " + sarr + ") " + srcIdx + ") (select (select " + old + " " + a + ") " + i + "))) :pattern ((select (select " + nw + " " + a + ") " + i + "))))")
	}
}

// elemLeaves lists the leaf components of elements of type et.
func (r *FnRun) elemLeaves(et types.Type) ([]string, string, bool) {
	fam := "elem:" + r.tn(et)
	switch r.eng.shape(et) {
	case KInt:
		return []string{fam}, "Int", true
	case KBool:
		return []string{fam}, "Bool", true
	case KIface:
		return []string{fam + "#tag", fam + "#val"}, "Int", true
	case KSlice:
		return []string{fam + "#arr", fam + "#off", fam + "#len", fam + "#cap"}, "Int", true
	}
	return nil, "", false
}

// setRow replaces one row of a 2-level leaf.
func (r *FnRun) setRow(st *State, leaf, ls, arr, row string) {
	cur := st.comp(leaf, 2, ls)
	name := r.fresh(leaf, arrSort(2, ls))
	st.assume(sEq(name, sSto(cur, arr, row)))
	st.heap[leaf] = name
	delete(st.wcache, leaf)
}

// doAppendK models append(a, b...) at the level of backing-array rows. Two continuations: enough capacity
// (elements written in place, slices sharing the array observe them) or a fresh array holding a copy of a.
func (r *FnRun) doAppendK(st *State, fr *frame, instr ssa.Instruction, c *ssa.CallCommon, args []*V, rt types.Type, k func(*State, *V)) {
	a, b := args[0], args[1]
	sl, ok := c.Args[0].Type().Underlying().(*types.Slice)
	if !ok || b.K != KSlice {
		r.abstractNote(st, "append of non-slice")
		k(st, st.sym("append", rt))
		return
	}
	et := sl.Elem()
	leafs, ls, ok := r.elemLeaves(et)
	if !ok {
		r.abstractNote(st, "append of struct elements")
		k(st, st.sym("append", rt))
		return
	}
	nlen := foldArith("+", a.Len, b.Len)
	nb := -1
	if isIntLit(b.Len) {
		fmt.Sscanf(b.Len, "%d", &nb)
	}
	// values of b read before anything is modified
	var bvals []*V
	if nb >= 0 && nb <= 4 {
		for j := 0; j < nb; j++ {
			bvals = append(bvals, r.sliceElem(st, b, j, et))
		}
	}
	bRows := map[string]string{}
	for _, leaf := range leafs {
		bRows[leaf] = sSel(st.comp(leaf, 2, ls), b.Arr)
	}
	writeB := func(s *State, arr, off string, rowOf func(leaf string) string) {
		if bvals != nil {
			for j, v := range bvals {
				s.store(s.elemLoc(arr, s.ixTerm(off, foldArith("+", a.Len, sInt(int64(j)))), et), v)
			}
			return
		}
		// symbolic number of appended elements: quantified description of the affected row
		for _, leaf := range leafs {
			old := rowOf(leaf)
			row := r.fresh("row", arrSort(1, ls))
			i, j := mangle("q:i"), mangle("q:j")
			lo := s.ixTerm(off, a.Len)
			s.assume("(forall ((" + j + " Int)) (! (=> (and (<= 0 " + j + ") (< " + j + " " + b.Len + ")) (= (select " + row + " " + s.ixTerm(off, "(+ "+a.Len+" "+j+")") + ") (select " + bRows[leaf] + " " + s.ixTerm(b.Off, j) + "))) :pattern ((select " + bRows[leaf] + " " + s.ixTerm(b.Off, j) + "))))")
			s.assume("(forall ((" + i + " Int)) (! (=> (or (< " + i + " " + lo + ") (>= " + i + " (+ " + lo + " " + b.Len + "))) (= (select " + row + " " + i + ") (select " + old + " " + i + "))) :pattern ((select " + row + " " + i + "))))")
			r.setRow(s, leaf, ls, arr, row)
		}
	}
	inPlace := "(<= " + nlen + " " + a.Cap + ")"
	if isIntLit(nlen) && isIntLit(a.Cap) {
		var x, y int64
		fmt.Sscanf(nlen, "%d", &x)
		fmt.Sscanf(a.Cap, "%d", &y)
		if !strings.HasPrefix(nlen, "(") && !strings.HasPrefix(a.Cap, "(") {
			if x <= y {
				inPlace = "true"
			} else {
				inPlace = "false"
			}
		}
	}
	// 1. in place
	if inPlace != "false" {
		s1 := st.clone()
		s1.assume(inPlace)
		s1.assume(sNot(sEq(a.Arr, "0")))
		writeB(s1, a.Arr, a.Off, func(leaf string) string { return sSel(s1.comp(leaf, 2, ls), a.Arr) })
		s1.trail = append(s1.trail, "append-inplace")
		k(s1, &V{K: KSlice, T: rt, Arr: a.Arr, Off: a.Off, Len: nlen, Cap: a.Cap})
	}
	// 2. reallocation
	if inPlace == "true" {
		return
	}
	s2 := st.clone()
	s2.assume(sNot(inPlace))
	narr := s2.allocRef()
	ncap := r.fresh("append.cap", "Int")
	s2.assume("(>= " + ncap + " " + nlen + ")")
	rows := map[string]string{}
	for _, leaf := range leafs {
		old := sSel(s2.comp(leaf, 2, ls), a.Arr)
		row := r.fresh("row", arrSort(1, ls))
		i := mangle("q:i")
		s2.assume("(forall ((" + i + " Int)) (! (=> (and (<= 0 " + i + ") (< " + i + " " + a.Len + ")) (= (select " + row + " " + s2.ixTerm("0", i) + ") (select " + old + " " + s2.ixTerm(a.Off, i) + "))) :pattern ((select " + row + " " + s2.ixTerm("0", i) + "))))")
		r.setRow(s2, leaf, ls, narr, row)
		rows[leaf] = row
	}
	writeB(s2, narr, "0", func(leaf string) string { return rows[leaf] })
	s2.trail = append(s2.trail, "append-realloc")
	k(s2, &V{K: KSlice, T: rt, Arr: narr, Off: "0", Len: nlen, Cap: ncap})
}

// ---- goroutines, channels ----

func (r *FnRun) doGo(st *State, fr *frame, x *ssa.Go) {
	c := &x.Call
	var args []*V
	for _, a := range c.Args {
		args = append(args, r.val(st, a))
	}
	name := "?"
	var ids []string
	if c.IsInvoke() {
		name = ifaceMethodKey(c)
		recv := r.val(st, c.Value)
		ids = append(ids, recv.Val)
	} else {
		switch f := c.Value.(type) {
		case *ssa.Function:
			name = r.eng.relName(f)
		case *ssa.MakeClosure:
			name = r.eng.relName(f.Fn.(*ssa.Function))
		default:
			fv := r.val(st, c.Value)
			if fv.Fn != nil {
				name = r.eng.relName(fv.Fn)
			}
		}
	}
	for _, a := range args {
		ids = append(ids, identityLeaves(a)[0])
	}
	if mc, ok := c.Value.(*ssa.MakeClosure); ok {
		cv := r.val(st, mc)
		for _, b := range cv.Binds {
			func() {
				defer func() {
					if recover() != nil {
						ids = append(ids, "0")
					}
				}()
				ids = append(ids, identityLeaves(st.load(st.derefLoc(b)))[0])
			}()
		}
	}
	if len(ids) > 8 {
		ids = ids[:8]
	}
	st.emit("spawn:"+name, ids...)
	r.spawned[name] = true
}

func srcName(v ssa.Value) string {
	switch x := v.(type) {
	case *ssa.UnOp:
		return srcName(x.X)
	case *ssa.Alloc:
		return x.Comment
	case *ssa.Parameter:
		return x.Name()
	case *ssa.FreeVar:
		return x.Name()
	case *ssa.FieldAddr:
		st := x.X.Type().Underlying().(*types.Pointer).Elem().Underlying().(*types.Struct)
		return srcName(x.X) + "." + st.Field(x.Field).Name()
	case *ssa.MakeChan:
		return ""
	}
	return ""
}

func (r *FnRun) sendsClauses(fr *frame, chName string) []*Clause {
	if fr.fc == nil {
		return nil
	}
	var out []*Clause
	for _, c := range fr.fc.Clauses {
		if c.Kind == "sends" && c.Name == chName {
			out = append(out, c)
		}
	}
	return out
}

func (r *FnRun) execSendOn(st *State, fr *frame, ins ssa.Instruction, chv ssa.Value, ch, msg *V, viaSelect bool) {
	name := srcName(chv)
	for _, c := range r.sendsClauses(fr, name) {
		t, err := r.evalClause(st, fr, c, map[string]*V{"msg": msg}, "sends "+name)
		if err != nil {
			r.errs = append(r.errs, err.Error())
			continue
		}
		r.oblige(st, "send-inv", name, c.Tags, t, r.posOf(ins), fmt.Sprintf("b%d", ins.Block().Index))
	}
	ids := []string{ch.S}
	for _, l := range intLeaves(msg) {
		if len(ids) < 8 {
			ids = append(ids, l)
		}
	}
	if viaSelect {
		st.emit("send", ids...)
	} else {
		st.emit("send-bare", ids...)
		// a bare send blocks forever when nobody receives: claimed unreachable where the contract says so
		r.oblige(st, "blocking", "bare-send:"+name, []string{"C03"}, "false", r.posOf(ins), fmt.Sprintf("b%d", ins.Block().Index))
	}
}

func (r *FnRun) execSend(st *State, fr *frame, x *ssa.Send, ch, msg *V) {
	st.ctxDoneAdvance()
	r.execSendOn(st, fr, x, x.Chan, ch, msg, false)
}

func (r *FnRun) recvValue(st *State, fr *frame, ins ssa.Instruction, chv ssa.Value, ch *V, et types.Type) (*V, string) {
	ok := r.fresh("recvok", "Bool")
	v := st.sym("recv", et)
	name := srcName(chv)
	for _, c := range r.sendsClauses(fr, name) {
		t, err := r.evalClause(st, fr, c, map[string]*V{"msg": v}, "sends "+name)
		if err == nil {
			st.assume(sImp(ok, t))
		}
	}
	ev := &EvalCtx{run: r, st: st}
	out := ev.iteV(ok, v, st.zero(et))
	st.emit("recv", ch.S, sIte(ok, "1", "0"))
	st.writeLeaf("nrecv", []string{ch.S}, "Int", "(+ "+sSel(st.comp("nrecv", 1, "Int"), ch.S)+" "+sIte(ok, "1", "0")+")")
	return out, ok
}

func (r *FnRun) execRecv(st *State, fr *frame, x *ssa.UnOp, ch *V, commaOk bool) *V {
	st.ctxDoneAdvance()
	et := x.X.Type().Underlying().(*types.Chan).Elem()
	if strings.HasPrefix(ch.Prov, "ctxdone:") {
		st.assume(sSel(st.comp("ctxdone", 1, "Bool"), strings.TrimPrefix(ch.Prov, "ctxdone:")))
		z := st.zero(et)
		if commaOk {
			return &V{K: KTuple, T: x.Type(), F: []*V{z, vBool("false")}}
		}
		return z
	}
	v, ok := r.recvValue(st, fr, x, x.X, ch, et)
	if commaOk {
		return &V{K: KTuple, T: x.Type(), F: []*V{v, vBool(ok)}}
	}
	return v
}

func (r *FnRun) execSelect(st *State, fr *frame, b *ssa.BasicBlock, i int, x *ssa.Select) {
	tt := x.Type().(*types.Tuple)
	if x.Blocking {
		st.ctxDoneAdvance()
	}
	mk := func(s *State, idx int, recvOk string, recvIdx int, recvVal *V) {
		out := &V{K: KTuple, T: tt}
		out.F = append(out.F, vInt(sInt(int64(idx)), tt.At(0).Type()), vBool(recvOk))
		ri := 0
		for _, sst := range x.States {
			if sst.Dir == types.RecvOnly {
				t := tt.At(2 + ri).Type()
				if ri == recvIdx && recvVal != nil {
					out.F = append(out.F, recvVal)
				} else {
					out.F = append(out.F, s.zero(t))
				}
				ri++
			}
		}
		s.regs[x] = out
		r.exec(s, fr, b, i+1)
	}
	hasDoneArm := false
	ri := 0
	for idx, sst := range x.States {
		s := st.clone()
		s.trail = append(s.trail, fmt.Sprintf("select%d", idx))
		ch := r.val(s, sst.Chan)
		if sst.Dir == types.SendOnly {
			msg := r.val(s, sst.Send)
			r.execSendOn(s, fr, x, sst.Chan, ch, msg, true)
			mk(s, idx, "false", -1, nil)
			continue
		}
		et := sst.Chan.Type().Underlying().(*types.Chan).Elem()
		myri := ri
		ri++
		switch {
		case strings.HasPrefix(ch.Prov, "ctxdone:"):
			hasDoneArm = true
			s.assume(sSel(s.comp("ctxdone", 1, "Bool"), strings.TrimPrefix(ch.Prov, "ctxdone:")))
			s.emit("recv-done", strings.TrimPrefix(ch.Prov, "ctxdone:"))
			mk(s, idx, "false", myri, s.zero(et))
		case ch.Prov == "timer":
			s.emit("recv-timer", ch.S)
			mk(s, idx, "true", myri, s.sym("tick", et))
		default:
			v, ok := r.recvValue(s, fr, x, sst.Chan, ch, et)
			mk(s, idx, ok, myri, v)
		}
	}
	if !x.Blocking {
		s := st.clone()
		s.trail = append(s.trail, "select-default")
		// the default arm is taken only when no other arm is ready: a done context is always ready
		for _, sst := range x.States {
			if sst.Dir == types.RecvOnly {
				ch := r.val(s, sst.Chan)
				if strings.HasPrefix(ch.Prov, "ctxdone:") {
					s.assume(sNot(sSel(s.comp("ctxdone", 1, "Bool"), strings.TrimPrefix(ch.Prov, "ctxdone:"))))
				}
			}
		}
		mk(s, -1, "false", -1, nil)
	} else {
		if !hasDoneArm {
			r.blockingNoDone = append(r.blockingNoDone, r.posOf(x))
		}
	}
}

// isDiscipline: a precondition that only states lock/callback discipline is asserted at the call site but not
// assumed afterwards, so that a (known) discipline violation does not make the rest of the path vacuous.
func isDiscipline(e *Expr) bool {
	return e != nil && e.Op == "call" && e.Name == "cbfree"
}

// freeVarContent: the value a captured variable denotes in contracts – its contents, or for variables of an
// opaque library type (sync.WaitGroup, ...) the identity of the variable itself.
func (r *FnRun) freeVarContent(st *State, fv *ssa.FreeVar, ptr *V) (out *V) {
	if pt, ok := fv.Type().Underlying().(*types.Pointer); ok && r.eng.opaque(pt.Elem()) {
		return ptr
	}
	defer func() {
		if recover() != nil {
			out = ptr
		}
	}()
	return st.load(st.derefLoc(ptr))
}

// reachableFns: repository functions statically reachable from f (direct calls and closures created in them).
func (e *Engine) reachableFns(f *ssa.Function) map[string]bool {
	if e.reachCache == nil {
		e.reachCache = map[*ssa.Function]map[string]bool{}
	}
	if m, ok := e.reachCache[f]; ok {
		return m
	}
	m := map[string]bool{}
	e.reachCache[f] = m
	seen := map[*ssa.Function]bool{}
	var walk func(g *ssa.Function)
	walk = func(g *ssa.Function) {
		if seen[g] {
			return
		}
		seen[g] = true
		for _, b := range g.Blocks {
			for _, ins := range b.Instrs {
				var callee *ssa.Function
				switch x := ins.(type) {
				case *ssa.Call:
					callee = x.Call.StaticCallee()
				case *ssa.Defer:
					callee = x.Call.StaticCallee()
				case *ssa.Go:
					callee = x.Call.StaticCallee()
				case *ssa.MakeClosure:
					callee = x.Fn.(*ssa.Function)
				}
				if callee != nil && e.isRepoPkg(pkgOfFn(callee)) {
					m[e.relName(callee)] = true
					walk(callee)
				}
				// dynamic dispatch: an interface call may reach every repository method of that name, a call of a
				// function value every repository function whose address is taken somewhere
				if cc, ok := ins.(ssa.CallInstruction); ok && callee == nil {
					c := cc.Common()
					var cands []*ssa.Function
					if c.IsInvoke() {
						cands = e.dynTargets().byMethod[c.Method.Name()]
					} else if _, isBuiltin := c.Value.(*ssa.Builtin); !isBuiltin {
						cands = e.dynTargets().addrTaken
					}
					for _, g2 := range cands {
						m[e.relName(g2)] = true
						walk(g2)
					}
				}
			}
		}
	}
	walk(f)
	return m
}

// preserveUnreachableCounters: a callee cannot change the call counter of a function it cannot reach.
func (r *FnRun) preserveUnreachableCounters(st, pre *State, f *ssa.Function) {
	if _, ok := st.heap["ncall"]; !ok {
		return
	}
	reach := r.eng.reachableFns(f)
	nw := st.comp("ncall", 1, "Int")
	od := pre.comp("ncall", 1, "Int")
	if nw == od {
		return
	}
	for _, name := range sortedKeys(r.eng.strIDs) {
		if !strings.HasPrefix(name, "fn:") {
			continue
		}
		if reach[strings.TrimPrefix(name, "fn:")] {
			continue
		}
		id := r.eng.strID(name)
		st.assume(sEq(sSel(nw, id), sSel(od, id)))
	}
}


type dynTargets struct {
	byMethod  map[string][]*ssa.Function
	addrTaken []*ssa.Function
}

// dynTargets: candidate targets of dynamic calls among repository functions (by method name; address taken).
func (e *Engine) dynTargets() *dynTargets {
	if e.dyn != nil {
		return e.dyn
	}
	d := &dynTargets{byMethod: map[string][]*ssa.Function{}}
	e.dyn = d
	taken := map[*ssa.Function]bool{}
	var all []*ssa.Function
	for f := range ssautil.AllFunctions(e.prog) {
		if f == nil || f.Pkg == nil || !e.isRepoPkg(f.Pkg.Pkg) {
			if f == nil || f.Synthetic == "" || pkgOfFn(f) == nil || !e.isRepoPkg(pkgOfFn(f)) {
				continue
			}
		}
		all = append(all, f)
	}
	sort.Slice(all, func(i, j int) bool { return all[i].String() < all[j].String() })
	for _, f := range all {
		if f.Signature.Recv() != nil && len(f.Blocks) > 0 && f.Synthetic == "" {
			d.byMethod[f.Name()] = append(d.byMethod[f.Name()], f)
		}
		for _, b := range f.Blocks {
			for _, ins := range b.Instrs {
				var ops []*ssa.Value
				ops = ins.Operands(ops)
				for i, op := range ops {
					if op == nil || *op == nil {
						continue
					}
					g, ok := (*op).(*ssa.Function)
					if !ok {
						continue
					}
					if cc, isCall := ins.(ssa.CallInstruction); isCall && i == 0 && cc.Common().Value == g {
						continue // call position
					}
					if _, isMC := ins.(*ssa.MakeClosure); isMC {
						continue // closures are followed where they are created
					}
					if pkgOfFn(g) != nil && e.isRepoPkg(pkgOfFn(g)) {
						taken[g] = true
					}
				}
			}
		}
	}
	for g := range taken {
		d.addrTaken = append(d.addrTaken, g)
	}
	sort.Slice(d.addrTaken, func(i, j int) bool { return d.addrTaken[i].String() < d.addrTaken[j].String() })
	return d
}


// staticSite: 1-based index of the call instruction among the call sites of that callee in the function under
// verification, in source order (0 if not found).
func (r *FnRun) staticSite(name string, instr ssa.Instruction) int {
	var sites []ssa.Instruction
	for _, b := range r.fn.Blocks {
		for _, ins := range b.Instrs {
			if call, ok := ins.(*ssa.Call); ok && r.calleeName(&call.Call) == name {
				sites = append(sites, ins)
			}
		}
	}
	sort.SliceStable(sites, func(i, j int) bool { return sites[i].Pos() < sites[j].Pos() })
	for i, s := range sites {
		if s == instr {
			return i + 1
		}
	}
	return 0
}


// noteTrustedBody records a fingerprint of the body of a function whose contract is assumed.
func (r *FnRun) noteTrustedBody(name string, f *ssa.Function) {
	if r.trustedFP == nil {
		r.trustedFP = map[string]string{}
	}
	if _, ok := r.trustedFP[name]; ok {
		return
	}
	r.trustedFP[name] = bodyFingerprint(f)
}

// bodyFingerprint: hash of the function's SSA text (and that of its closures) without position comments.
func bodyFingerprint(f *ssa.Function) string {
	var b bytes.Buffer
	var walk func(g *ssa.Function)
	walk = func(g *ssa.Function) {
		var t bytes.Buffer
		g.WriteTo(&t)
		for _, line := range strings.Split(t.String(), "\n") {
			if strings.HasPrefix(line, "#") {
				continue
			}
			b.WriteString(line)
			b.WriteByte('\n')
		}
		for _, a := range g.AnonFuncs {
			walk(a)
		}
	}
	walk(f)
	sum := sha256.Sum256(b.Bytes())
	return hex.EncodeToString(sum[:8])
}
