package main

// Symbolic execution of SSA (naive form) with path enumeration, loop cutting and calls by contract.

import (
	"fmt"
	"go/constant"
	"go/token"
	"go/types"
	"sort"
	"strings"

	"golang.org/x/tools/go/ssa"
)

const maxPaths = 6000
const maxInlineDepth = 4

type frame struct {
	fn       *ssa.Function
	fc       *FuncContract
	cs       *ContractSet
	depth    int
	onReturn func(st *State, results []*V)
	top      bool
}


type loopInfo struct {
	heads  map[*ssa.BasicBlock]int
	blocks map[*ssa.BasicBlock]map[*ssa.BasicBlock]bool
}

func (r *FnRun) loopsOf(fn *ssa.Function) *loopInfo {
	if li, ok := r.loops[fn]; ok {
		return li
	}
	li := &loopInfo{heads: map[*ssa.BasicBlock]int{}, blocks: map[*ssa.BasicBlock]map[*ssa.BasicBlock]bool{}}
	for _, b := range fn.Blocks {
		for _, s := range b.Succs {
			if s.Dominates(b) { // back edge b -> s
				set := li.blocks[s]
				if set == nil {
					set = map[*ssa.BasicBlock]bool{s: true}
					li.blocks[s] = set
				}
				// reverse DFS from b
				stack := []*ssa.BasicBlock{b}
				for len(stack) > 0 {
					x := stack[len(stack)-1]
					stack = stack[:len(stack)-1]
					if set[x] {
						continue
					}
					set[x] = true
					stack = append(stack, x.Preds...)
				}
			}
		}
	}
	var hs []*ssa.BasicBlock
	for h := range li.blocks {
		hs = append(hs, h)
	}
	sort.Slice(hs, func(i, j int) bool { return hs[i].Index < hs[j].Index })
	for i, h := range hs {
		li.heads[h] = i + 1
	}
	r.loops[fn] = li
	return li
}

func (r *FnRun) posOf(ins ssa.Instruction) string {
	p := ins.Pos()
	if !p.IsValid() {
		// look for a nearby instruction with a position
		b := ins.Block()
		for _, x := range b.Instrs {
			if x.Pos().IsValid() {
				p = x.Pos()
				break
			}
		}
	}
	if !p.IsValid() {
		return ""
	}
	pp := r.eng.prog.Fset.Position(p)
	return fmt.Sprintf("%s:%d", pp.Filename, pp.Line)
}

func (r *FnRun) oblige(st *State, kind, label string, tags []string, goal string, pos string, anchor string) {
	if st.infeasible() {
		return
	}
	name := r.relName + "/" + kind
	if label != "" {
		name += ":" + label
	}
	ck := name
	if anchor != "" {
		name += "@" + anchor
	}
	o := &Obligation{Name: name, Func: r.relName, Pkg: r.fn.Pkg.Pkg.Path(), Kind: kind, Label: label, Tags: tags,
		Abstracted: st.abstracted, Pos: pos, ClauseKey: ck, Expect: "unsat"}
	if r.eng.wanted != nil && !r.eng.wanted(r, o) {
		// not claimed by the property being checked: never built, never solved
		return
	}
	o.Query = &Query{Name: name, Asserts: st.pcList(), Goal: goal}
	o.PathDesc = strings.Join(st.trail, " > ")
	r.obls = append(r.obls, o)
}

func (r *FnRun) abstractNote(st *State, msg string) {
	st.abstracted = true
	for _, m := range r.abstractedNotes {
		if m == msg {
			return
		}
	}
	r.abstractedNotes = append(r.abstractedNotes, msg)
}

// val gives the symbolic value of an SSA value on this path.
func (r *FnRun) val(st *State, v ssa.Value) *V {
	switch x := v.(type) {
	case *ssa.Const:
		return r.constVal(st, x)
	case *ssa.Function:
		return &V{K: KInt, T: x.Type(), S: r.funcRef(x), Fn: x}
	case *ssa.Global:
		g := r.globalRefOf(x)
		return vInt(g, x.Type())
	case *ssa.Builtin:
		return vInt("0", x.Type())
	}
	if got, ok := st.regs[v]; ok {
		return got
	}
	if fv, ok := v.(*ssa.FreeVar); ok {
		_ = fv
	}
	// not defined on this path (should not happen)
	r.errs = append(r.errs, fmt.Sprintf("%s: value %s (%T) undefined on path", r.relName, v.Name(), v))
	nv := st.sym("undef", v.Type())
	st.regs[v] = nv
	r.abstractNote(st, "undefined value "+v.Name())
	return nv
}

func (r *FnRun) funcRef(f *ssa.Function) string {
	name := mangle("func:" + f.String())
	r.eng.declare("(declare-const " + name + " Int)")
	r.eng.declare("(assert (> " + name + " 0))")
	return name
}

func (r *FnRun) globalRefOf(g *ssa.Global) string {
	name := mangle("global:" + g.Pkg.Pkg.Path() + "." + g.Name())
	r.eng.declare("(declare-const " + name + " Int)")
	return name
}

func (r *FnRun) constVal(st *State, c *ssa.Const) *V {
	t := c.Type()
	if c.Value == nil {
		return st.zero(t)
	}
	switch r.eng.shape(t) {
	case KBool:
		if constant.BoolVal(c.Value) {
			return &V{K: KBool, T: t, S: "true"}
		}
		return &V{K: KBool, T: t, S: "false"}
	case KInt:
		switch c.Value.Kind() {
		case constant.String:
			return vInt(r.eng.strID(constant.StringVal(c.Value)), t)
		case constant.Int:
			if n, ok := constant.Int64Val(c.Value); ok {
				return vInt(sInt(n), t)
			}
			if n, ok := constant.Uint64Val(c.Value); ok {
				return vInt(fmt.Sprintf("%d", n), t)
			}
		case constant.Float:
			f, _ := constant.Float64Val(c.Value)
			return vInt(sInt(int64(f)), t)
		}
	}
	r.errs = append(r.errs, "unsupported constant "+c.String())
	return st.sym("const", t)
}

// ---- main interpreter loop ----

func (r *FnRun) exec(st *State, fr *frame, b *ssa.BasicBlock, i int) {
	for ; i < len(b.Instrs); i++ {
		if st.infeasible() {
			return
		}
		ins := b.Instrs[i]
		if fr.top && r.fc != nil && r.hasCuts() {
			if cs := r.cutsAt(fr, ins); cs != nil && st.skipCut != ins {
				r.atCut(st, fr, b, i, ins, cs)
				return
			}
		}
		switch x := ins.(type) {
		case *ssa.DebugRef:
		case *ssa.Alloc:
			r.execAlloc(st, x)
		case *ssa.Store:
			addr := r.val(st, x.Addr)
			v := r.val(st, x.Val)
			r.storeThrough(st, fr, x, addr, v)
		case *ssa.UnOp:
			st.regs[x] = r.execUnOp(st, fr, x)
		case *ssa.BinOp:
			st.regs[x] = r.execBinOp(st, x)
		case *ssa.FieldAddr:
			base := r.val(st, x.X)
			st.regs[x] = r.fieldAddr(st, fr, x, base, x.Field)
		case *ssa.Field:
			base := r.val(st, x.X)
			if x.Field >= len(base.F) {
				// field of a struct value the model keeps abstract (a type of another module): a function of the value
				if base.K == KInt {
					fn := mangle("uf:field." + r.tn(x.X.Type()) + "." + fmt.Sprint(x.Field))
					switch r.eng.shape(x.Type()) {
					case KInt:
						r.eng.declare("(declare-fun " + fn + " (Int) Int)")
						st.regs[x] = vInt("("+fn+" "+base.S+")", x.Type())
						break
					default:
						r.abstractNote(st, "field read of an abstract struct value")
						st.regs[x] = st.sym("absfield", x.Type())
					}
				} else {
					r.abstractNote(st, "field read of an abstract struct value")
					st.regs[x] = st.sym("absfield", x.Type())
				}
				break
			}
			st.regs[x] = base.F[x.Field]
		case *ssa.IndexAddr:
			st.regs[x] = r.indexAddr(st, fr, x)
		case *ssa.Extract:
			t := r.val(st, x.Tuple)
			st.regs[x] = t.F[x.Index]
		case *ssa.Phi:
			found := false
			for k, p := range b.Preds {
				if p == st.prev {
					st.regs[x] = r.val(st, x.Edges[k])
					found = true
					break
				}
			}
			if !found {
				st.regs[x] = st.sym("phi", x.Type())
				r.abstractNote(st, "phi without predecessor")
			}
		case *ssa.ChangeType:
			v := *r.val(st, x.X)
			v.T = x.Type()
			st.regs[x] = &v
		case *ssa.Convert:
			st.regs[x] = r.execConvert(st, x)
		case *ssa.ChangeInterface:
			v := *r.val(st, x.X)
			v.T = x.Type()
			st.regs[x] = &v
		case *ssa.MakeInterface:
			st.regs[x] = r.makeInterface(st, r.val(st, x.X), x.X.Type(), x.Type())
		case *ssa.TypeAssert:
			r.execTypeAssert(st, fr, b, i, x)
			return
		case *ssa.MakeClosure:
			fn := x.Fn.(*ssa.Function)
			var binds []*V
			for _, bv := range x.Bindings {
				binds = append(binds, r.val(st, bv))
			}
			ref := r.fresh("closure", "Int")
			st.assume("(> " + ref + " 0)")
			st.regs[x] = &V{K: KInt, T: x.Type(), S: ref, Fn: fn, Binds: binds}
		case *ssa.MakeSlice:
			ln := r.val(st, x.Len).S
			cp := r.val(st, x.Cap).S
			arr := st.allocRef()
			et := x.Type().Underlying().(*types.Slice).Elem()
			r.zeroElems(st, arr, et)
			st.regs[x] = &V{K: KSlice, T: x.Type(), Arr: arr, Off: "0", Len: ln, Cap: cp}
		case *ssa.MakeMap:
			m := st.allocRef()
			mt := x.Type().Underlying().(*types.Map)
			fam := "map:" + r.tn(x.Type().Underlying())
			// reset the row for m to "empty"
			st.heap[fam+"#dom"] = r.rowReset(st, fam+"#dom", m, "Bool", "false")
			st.writeLeaf(fam+"#card", []string{m}, "Int", "0")
			_ = mt
			st.regs[x] = vInt(m, x.Type())
		case *ssa.MakeChan:
			c := st.allocRef()
			st.writeLeaf("nrecv", []string{c}, "Int", "0")
			st.regs[x] = vInt(c, x.Type())
		case *ssa.Slice:
			st.regs[x] = r.execSlice(st, fr, x)
		case *ssa.Lookup:
			st.regs[x] = r.execLookup(st, x)
		case *ssa.MapUpdate:
			r.execMapUpdate(st, fr, x)
		case *ssa.Range:
			st.regs[x] = r.execRange(st, x)
		case *ssa.Next:
			r.execNext(st, fr, b, i, x)
			return
		case *ssa.Call:
			if fr.top {
				if name := r.calleeName(&x.Call); name != "" {
					var as []*V
					if x.Call.IsInvoke() {
						as = append(as, r.val(st, x.Call.Value))
					}
					for _, a := range x.Call.Args {
						as = append(as, r.val(st, a))
					}
					la := make(map[string][]*V, len(st.lastArgs)+1)
					for k, v := range st.lastArgs {
						la[k] = v
					}
					la[name] = as
					st.lastArgs = la
				}
			}
			r.doCall(st, fr, x, &x.Call, func(st2 *State, res *V) {
				st2.regs[x] = res
				if fr.top {
					r.countFailure(st2, &x.Call, res)
				}
				r.exec(st2, fr, b, i+1)
			})
			return
		case *ssa.Go:
			r.doGo(st, fr, x)
		case *ssa.Defer:
			var args []*V
			for _, a := range x.Call.Args {
				args = append(args, r.val(st, a))
			}
			var fnv *V
			if !x.Call.IsInvoke() {
				if _, isB := x.Call.Value.(*ssa.Builtin); !isB {
					fnv = r.val(st, x.Call.Value)
				}
			} else {
				fnv = r.val(st, x.Call.Value)
			}
			st.deferStacks[fr.depth] = append(append([]*deferRec(nil), st.deferStacks[fr.depth]...), &deferRec{call: &x.Call, args: args, fnv: fnv, instr: x})
		case *ssa.RunDefers:
			r.runDefers(st, fr, func(st2 *State) { r.exec(st2, fr, b, i+1) })
			return
		case *ssa.Send:
			r.execSend(st, fr, x, r.val(st, x.Chan), r.val(st, x.X))
		case *ssa.Select:
			r.execSelect(st, fr, b, i, x)
			return
		case *ssa.If:
			c := r.val(st, x.Cond).S
			switch st.known(c) {
			case 1:
				c = "true"
			case -1:
				c = "false"
			}
			if c != "false" {
				s1 := st
				if c != "true" {
					s1 = st.clone()
					s1.assume(c)
				}
				s1.trail = append(s1.trail, fmt.Sprintf("b%d:T", b.Index))
				r.jump(s1, fr, b, b.Succs[0])
			}
			if c != "true" {
				s2 := st
				if c != "false" {
					s2 = st.clone()
					s2.assume(sNot(c))
				}
				s2.trail = append(s2.trail, fmt.Sprintf("b%d:F", b.Index))
				r.jump(s2, fr, b, b.Succs[1])
			}
			return
		case *ssa.Jump:
			r.jump(st, fr, b, b.Succs[0])
			return
		case *ssa.Return:
			var res []*V
			for _, rv := range x.Results {
				res = append(res, r.val(st, rv))
			}
			fr.onReturn(st, res)
			return
		case *ssa.Panic:
			r.oblige(st, "safety", "no-panic", nil, "false", r.posOf(x), fmt.Sprintf("panic b%d", b.Index))
			return
		default:
			r.abstractNote(st, fmt.Sprintf("unsupported instruction %T in %s", ins, fr.fn.Name()))
			if v, ok := ins.(ssa.Value); ok {
				st.regs[v] = st.sym("abs", v.Type())
			}
		}
	}
}

func (r *FnRun) rowReset(st *State, leaf string, ref string, leafsort, def string) string {
	cur := st.comp(leaf, 2, leafsort)
	nt := sSto(cur, ref, "((as const (Array Int "+leafsort+")) "+def+")")
	name := r.fresh(leaf, arrSort(2, leafsort))
	st.assume(sEq(name, nt))
	// the row for the (fresh) reference is now the default: drop cached writes to that very row
	var keep []wentry
	for _, w := range st.wcache[leaf] {
		if len(w.idx) > 0 && w.idx[0] != ref {
			keep = append(keep, w)
		}
	}
	st.wcache[leaf] = keep
	return name
}

func (r *FnRun) zeroElems(st *State, arr string, et types.Type) {
	// fresh backing arrays start zeroed
	switch r.eng.shape(et) {
	case KInt:
		st.heap["elem:"+r.tn(et)] = r.rowReset(st, "elem:"+r.tn(et), arr, "Int", "0")
	case KBool:
		st.heap["elem:"+r.tn(et)] = r.rowReset(st, "elem:"+r.tn(et), arr, "Bool", "false")
	case KIface:
		st.heap["elem:"+r.tn(et)+"#tag"] = r.rowReset(st, "elem:"+r.tn(et)+"#tag", arr, "Int", "0")
		st.heap["elem:"+r.tn(et)+"#val"] = r.rowReset(st, "elem:"+r.tn(et)+"#val", arr, "Int", "0")
	case KSlice:
		for _, l := range []string{"#arr", "#off", "#len", "#cap"} {
			st.heap["elem:"+r.tn(et)+l] = r.rowReset(st, "elem:"+r.tn(et)+l, arr, "Int", "0")
		}
	}
}

func (r *FnRun) execAlloc(st *State, x *ssa.Alloc) {
	et := x.Type().Underlying().(*types.Pointer).Elem()
	if !x.Heap {
		st.cells[x] = st.zero(et)
		st.regs[x] = &V{K: KLoc, T: x.Type(), L: &Loc{T: et, Cell: x}}
		return
	}
	ref := st.allocRef()
	pv := vInt(ref, x.Type())
	st.regs[x] = pv
	if _, isArr := et.Underlying().(*types.Array); isArr {
		at := et.Underlying().(*types.Array)
		r.zeroElems(st, ref, at.Elem())
		return
	}
	if r.eng.opaque(et) {
		// zero value of an opaque struct (e.g. sync.WaitGroup, bytes.Buffer): models give meaning by identity
		r.initOpaque(st, et, ref)
		return
	}
	st.store(st.derefLoc(pv), st.zero(et))
	// opaque embedded objects inside a fresh struct start in their zero state too
	r.initEmbedded(st, et, ref)
}

func (r *FnRun) initEmbedded(st *State, t types.Type, ref string) {
	stt, ok := t.Underlying().(*types.Struct)
	if !ok || r.eng.opaque(t) {
		return
	}
	for i := 0; i < stt.NumFields(); i++ {
		ft := stt.Field(i).Type()
		if _, isS := ft.Underlying().(*types.Struct); isS {
			id := r.fa(t, stt.Field(i).Name(), ref)
			if r.eng.opaque(ft) {
				r.initOpaque(st, ft, id)
			} else {
				r.initEmbedded(st, ft, id)
			}
		}
	}
}

// initOpaque puts ghost state of well-known library objects into their zero state.
func (r *FnRun) initOpaque(st *State, t types.Type, id string) {
	switch types.TypeString(t, nil) {
	case "sync.Mutex", "sync.RWMutex":
		st.writeLeaf("held", []string{id}, "Int", "0")
	case "sync.Map":
		st.heap["syncmap#dom"] = r.rowReset(st, "syncmap#dom", id, "Bool", "false")
	case "bytes.Buffer":
		arr := st.allocRef()
		st.writeLeaf("buf#arr", []string{id}, "Int", arr)
		st.writeLeaf("bytes#content", []string{arr}, "Int", "0")
	}
}

func (r *FnRun) nilCheck(st *State, fr *frame, ins ssa.Instruction, ref string, what string) {
	if ref == "" || st.nonNil[ref] {
		return
	}
	if r.safetyNil && fr.top {
		r.oblige(st, "safety", "nil-deref", nil, sNot(sEq(ref, "0")), r.posOf(ins), what)
	}
	st.nonNil[ref] = true
	st.assume(sNot(sEq(ref, "0")))
}

func (r *FnRun) fieldAddr(st *State, fr *frame, ins ssa.Instruction, base *V, field int) *V {
	l := st.derefLoc(base)
	var out *Loc
	if l.Cell != nil {
		ft := r.structFields(l.T).Field(field).Type()
		out = &Loc{T: ft, Cell: l.Cell, Path: append(append([]int(nil), l.Path...), field)}
	} else if l.Obj != "" {
		r.nilCheck(st, fr, ins, l.Obj, "field")
		out = st.fieldLoc(l.Obj, l.T, field)
	} else {
		r.abstractNote(st, "field address of non-struct location")
		out = &Loc{T: r.structFields(l.T).Field(field).Type(), Comp: "abs", Idx: []string{r.fresh("abs", "Int")}}
	}
	pt := types.NewPointer(out.T)
	// pointers to embedded objects are ordinary references
	if out.Obj != "" {
		return vInt(out.Obj, pt)
	}
	if out.Ref != "" && r.eng.opaque(out.T) {
		return &V{K: KLoc, T: pt, L: out}
	}
	return &V{K: KLoc, T: pt, L: out}
}

func (r *FnRun) indexAddr(st *State, fr *frame, x *ssa.IndexAddr) *V {
	base := r.val(st, x.X)
	idx := r.val(st, x.Index).S
	var arr, off, ln string
	var et types.Type
	switch bt := x.X.Type().Underlying().(type) {
	case *types.Slice:
		arr, off, ln = base.Arr, base.Off, base.Len
		et = bt.Elem()
	case *types.Pointer:
		at := bt.Elem().Underlying().(*types.Array)
		l := st.derefLoc(base)
		arr, off, ln = l.Ref, "0", fmt.Sprintf("%d", at.Len())
		et = at.Elem()
	default:
		r.abstractNote(st, "IndexAddr on "+x.X.Type().String())
		return st.sym("abs", x.Type())
	}
	if fr.top {
		goal := sAnd("(<= 0 "+idx+")", "(< "+idx+" "+ln+")")
		if !(isIntLit(idx) && isIntLit(ln)) {
			r.oblige(st, "safety", "index", nil, goal, r.posOf(x), fmt.Sprintf("%s b%d", x.Name(), x.Block().Index))
		}
		st.assume(goal)
	}
	pos := st.ixTerm(off, idx)
	l := st.elemLoc(arr, pos, et)
	if l.Obj != "" {
		return vInt(l.Obj, x.Type())
	}
	return &V{K: KLoc, T: x.Type(), L: l}
}

func (r *FnRun) storeThrough(st *State, fr *frame, ins ssa.Instruction, addr *V, v *V) {
	l := st.derefLoc(addr)
	if l.Cell == nil && addr.K == KInt {
		r.nilCheck(st, fr, ins, addr.S, "store")
	}
	if l.Comp == "" && l.Obj == "" && l.Cell == nil {
		r.abstractNote(st, "store to array location")
		return
	}
	r.accessCheck(st, fr, ins, l, true)
	st.store(l, v)
}

func (r *FnRun) execUnOp(st *State, fr *frame, x *ssa.UnOp) *V {
	a := r.val(st, x.X)
	switch x.Op {
	case token.MUL:
		l := st.derefLoc(a)
		if l.Cell == nil && a.K == KInt {
			r.nilCheck(st, fr, x, a.S, "load")
		}
		if l.Comp == "" && l.Obj == "" && l.Cell == nil {
			r.abstractNote(st, "load of array value")
			return st.sym("abs", x.Type())
		}
		r.accessCheck(st, fr, x, l, false)
		v := st.nameV("ld", st.load(l))
		if v.K == KInt && isRefType(x.Type()) {
			// references stored in memory are older than anything allocated later
			st.assume("(< " + v.S + " " + st.ghost["alloc"] + ")")
		}
		return v
	case token.NOT:
		return &V{K: KBool, T: x.Type(), S: sNot(a.S)}
	case token.SUB:
		return vInt("(- "+a.S+")", x.Type())
	case token.ARROW:
		return r.execRecv(st, fr, x, a, x.CommaOk)
	case token.XOR:
		r.eng.declare("(declare-fun bitnot (Int) Int)")
		return vInt("(bitnot "+a.S+")", x.Type())
	}
	r.abstractNote(st, "unsupported unary op "+x.Op.String())
	return st.sym("abs", x.Type())
}

func isStringType(t types.Type) bool {
	b, ok := t.Underlying().(*types.Basic)
	return ok && b.Info()&types.IsString != 0
}

func (r *FnRun) execBinOp(st *State, x *ssa.BinOp) *V {
	a := r.val(st, x.X)
	b := r.val(st, x.Y)
	switch x.Op {
	case token.EQL, token.NEQ:
		var t string
		if a.K == KLoc || b.K == KLoc {
			if a.K == KLoc && b.K == KLoc && a.L.Ref != "" && b.L.Ref != "" {
				t = sEq(a.L.Ref, b.L.Ref)
			} else {
				// address of a field/element is never nil
				t = "false"
			}
		} else if a.K != b.K {
			r.abstractNote(st, "comparison of different kinds")
			t = r.fresh("cmp", "Bool")
		} else {
			t = st.eqV(a, b)
		}
		if x.Op == token.NEQ {
			t = sNot(t)
		}
		return &V{K: KBool, T: x.Type(), S: t}
	case token.LSS, token.LEQ, token.GTR, token.GEQ:
		op := map[token.Token]string{token.LSS: "<", token.LEQ: "<=", token.GTR: ">", token.GEQ: ">="}[x.Op]
		if isStringType(x.X.Type()) {
			r.eng.declare("(declare-fun strless (Int Int) Bool)")
			var t string
			switch x.Op {
			case token.LSS:
				t = "(strless " + a.S + " " + b.S + ")"
			case token.GTR:
				t = "(strless " + b.S + " " + a.S + ")"
			case token.LEQ:
				t = sNot("(strless " + b.S + " " + a.S + ")")
			default:
				t = sNot("(strless " + a.S + " " + b.S + ")")
			}
			return &V{K: KBool, T: x.Type(), S: t}
		}
		return &V{K: KBool, T: x.Type(), S: "(" + op + " " + a.S + " " + b.S + ")"}
	case token.ADD:
		if isStringType(x.Type()) {
			r.eng.declare("(declare-fun strcat (Int Int) Int)")
			return vInt("(strcat "+a.S+" "+b.S+")", x.Type())
		}
		return vInt(foldArith("+", a.S, b.S), x.Type())
	case token.SUB:
		return vInt(foldArith("-", a.S, b.S), x.Type())
	case token.MUL:
		return vInt("(* "+a.S+" "+b.S+")", x.Type())
	case token.QUO:
		return vInt("(div "+a.S+" "+b.S+")", x.Type())
	case token.REM:
		return vInt("(mod "+a.S+" "+b.S+")", x.Type())
	case token.AND, token.OR, token.XOR, token.SHL, token.SHR, token.AND_NOT:
		if a.K == KBool {
			switch x.Op {
			case token.AND:
				return &V{K: KBool, T: x.Type(), S: sAnd(a.S, b.S)}
			case token.OR:
				return &V{K: KBool, T: x.Type(), S: sOr(a.S, b.S)}
			}
		}
		fn := "bitop_" + map[token.Token]string{token.AND: "and", token.OR: "or", token.XOR: "xor", token.SHL: "shl", token.SHR: "shr", token.AND_NOT: "andnot"}[x.Op]
		r.eng.declare("(declare-fun " + fn + " (Int Int) Int)")
		return vInt("("+fn+" "+a.S+" "+b.S+")", x.Type())
	}
	r.abstractNote(st, "unsupported binary op "+x.Op.String())
	return st.sym("abs", x.Type())
}

func foldArith(op, a, b string) string {
	if isIntLit(a) && isIntLit(b) {
		var x, y int64
		fmt.Sscanf(strings.Trim(strings.ReplaceAll(a, "(- ", "-"), ")"), "%d", &x)
		fmt.Sscanf(strings.Trim(strings.ReplaceAll(b, "(- ", "-"), ")"), "%d", &y)
		if op == "+" {
			return sInt(x + y)
		}
		return sInt(x - y)
	}
	return "(" + op + " " + a + " " + b + ")"
}

func (r *FnRun) execConvert(st *State, x *ssa.Convert) *V {
	a := r.val(st, x.X)
	from, to := x.X.Type(), x.Type()
	fs, ts := r.eng.shape(from), r.eng.shape(to)
	switch {
	case fs == KInt && ts == KInt:
		if isStringType(to) && !isStringType(from) {
			// string(rune/int)
			r.eng.declare("(declare-fun int2str (Int) Int)")
			return vInt("(int2str "+a.S+")", to)
		}
		v := *a
		v.T = to
		return &v
	case fs == KInt && ts == KSlice && isStringType(from):
		// []byte(s)
		r.eng.declare("(declare-fun str2bytes (Int) Int)")
		r.eng.declare("(declare-fun bytes2str (Int Int Int) Int)")
		arr := st.allocRef()
		ln := st.strLen(a.S)
		st.assume(sEq("(bytes2str "+arr+" 0 "+ln+")", a.S))
		return &V{K: KSlice, T: to, Arr: arr, Off: "0", Len: ln, Cap: ln}
	case fs == KSlice && ts == KInt && isStringType(to):
		r.eng.declare("(declare-fun bytes2str (Int Int Int) Int)")
		s := "(bytes2str " + a.Arr + " " + a.Off + " " + a.Len + ")"
		st.assume(sEq(st.strLen(s), a.Len))
		return vInt(s, to)
	}
	r.abstractNote(st, "unsupported conversion "+from.String()+" -> "+to.String())
	return st.sym("conv", to)
}

// makeInterface boxes a concrete value.
func (r *FnRun) makeInterface(st *State, v *V, from, to types.Type) *V {
	tag := r.eng.typeID(from)
	switch v.K {
	case KInt:
		return &V{K: KIface, T: to, Tag: tag, Val: v.S, Fn: v.Fn, Binds: v.Binds}
	case KBool:
		return &V{K: KIface, T: to, Tag: tag, Val: sIte(v.S, "1", "0")}
	case KLoc:
		if v.L.Ref != "" {
			return &V{K: KIface, T: to, Tag: tag, Val: v.L.Ref}
		}
	case KIface:
		return v
	case KStruct:
		ref := st.allocRef()
		st.store(&Loc{T: from, Obj: ref, Ref: ref}, v)
		return &V{K: KIface, T: to, Tag: tag, Val: ref}
	case KSlice:
		ref := st.allocRef()
		st.writeAt("box:"+r.tn(from), []string{ref}, from, v)
		return &V{K: KIface, T: to, Tag: tag, Val: ref}
	}
	r.abstractNote(st, "unsupported MakeInterface from "+from.String())
	return st.sym("iface", to)
}

// unbox recovers a concrete value from an interface payload.
func (r *FnRun) unbox(st *State, a *V, t types.Type) *V {
	switch r.eng.shape(t) {
	case KInt:
		return vInt(a.Val, t)
	case KBool:
		return &V{K: KBool, T: t, S: sEq(a.Val, "1")}
	case KStruct:
		return st.load(&Loc{T: t, Obj: a.Val, Ref: a.Val})
	case KSlice:
		return st.readAt("box:"+r.tn(t), []string{a.Val}, t)
	}
	return st.sym("unbox", t)
}

func (r *FnRun) execTypeAssert(st *State, fr *frame, b *ssa.BasicBlock, i int, x *ssa.TypeAssert) {
	a := r.val(st, x.X)
	cond := r.typeTest(a, x.AssertedType)
	_, toIface := x.AssertedType.Underlying().(*types.Interface)
	conv := func(s *State) *V {
		if toIface {
			v := *a
			v.T = x.AssertedType
			return &v
		}
		return r.unbox(s, a, x.AssertedType)
	}
	cont := func(s *State, v *V) {
		s.regs[x] = v
		r.exec(s, fr, b, i+1)
	}
	if !x.CommaOk {
		if fr.top {
			r.oblige(st, "safety", "type-assert", nil, cond, r.posOf(x), fmt.Sprintf("%s b%d", x.Name(), b.Index))
		}
		st.assume(cond)
		cont(st, conv(st))
		return
	}
	// comma-ok: fork so that later code sees concrete facts
	s1 := st.clone()
	s1.assume(cond)
	cont(s1, &V{K: KTuple, T: x.Type(), F: []*V{conv(s1), vBool("true")}})
	s2 := st.clone()
	s2.assume(sNot(cond))
	cont(s2, &V{K: KTuple, T: x.Type(), F: []*V{s2.zero(x.AssertedType), vBool("false")}})
}

func (r *FnRun) execSlice(st *State, fr *frame, x *ssa.Slice) *V {
	base := r.val(st, x.X)
	var arr, off, ln, cp string
	switch bt := x.X.Type().Underlying().(type) {
	case *types.Slice:
		arr, off, ln, cp = base.Arr, base.Off, base.Len, base.Cap
	case *types.Pointer:
		at := bt.Elem().Underlying().(*types.Array)
		l := st.derefLoc(base)
		arr, off = l.Ref, "0"
		ln = fmt.Sprintf("%d", at.Len())
		cp = ln
	case *types.Basic: // string slicing
		r.eng.declare("(declare-fun substr (Int Int Int) Int)")
		lo, hi := "0", st.strLen(base.S)
		if x.Low != nil {
			lo = r.val(st, x.Low).S
		}
		if x.High != nil {
			hi = r.val(st, x.High).S
		}
		return vInt("(substr "+base.S+" "+lo+" "+hi+")", x.Type())
	default:
		r.abstractNote(st, "slice of "+x.X.Type().String())
		return st.sym("abs", x.Type())
	}
	lo, hi := "0", ln
	if x.Low != nil {
		lo = r.val(st, x.Low).S
	}
	if x.High != nil {
		hi = r.val(st, x.High).S
	}
	if fr.top && !(x.Low == nil && x.High == nil) {
		goal := sAnd("(<= 0 "+lo+")", "(<= "+lo+" "+hi+")", "(<= "+hi+" "+cp+")")
		r.oblige(st, "safety", "slice-bounds", nil, goal, r.posOf(x), fmt.Sprintf("%s b%d", x.Name(), x.Block().Index))
		st.assume(goal)
	}
	noff := foldArith("+", off, lo)
	if off == "0" {
		noff = lo
	}
	ncap := foldArith("-", cp, lo)
	if x.Max != nil {
		ncap = foldArith("-", r.val(st, x.Max).S, lo)
	}
	return &V{K: KSlice, T: x.Type(), Arr: arr, Off: noff, Len: foldArith("-", hi, lo), Cap: ncap}
}

// ---- Go maps ----

func (r *FnRun) goMapHandle(v *V, t types.Type) *mapHandle {
	m := t.Underlying().(*types.Map)
	return &mapHandle{fam: "map:" + r.tn(t.Underlying()), ref: v.S, kt: m.Key(), vt: m.Elem()}
}

func (r *FnRun) mapKey(st *State, k *V) (string, bool) {
	switch k.K {
	case KInt:
		return k.S, true
	case KBool:
		return sIte(k.S, "1", "0"), true
	case KIface:
		return k.Val, true
	}
	return "", false
}

func (r *FnRun) execLookup(st *State, x *ssa.Lookup) *V {
	base := r.val(st, x.X)
	if _, ok := x.X.Type().Underlying().(*types.Map); !ok {
		r.abstractNote(st, "string index")
		return st.sym("abs", x.Type())
	}
	h := r.goMapHandle(base, x.X.Type())
	k, ok := r.mapKey(st, r.val(st, x.Index))
	if !ok {
		r.abstractNote(st, "unsupported map key kind")
		return st.sym("abs", x.Type())
	}
	has := sAnd(sNot(sEq(h.ref, "0")), st.mapHas(h, k))
	ev := &EvalCtx{run: r, st: st}
	_ = ev
	st.mapZeroAxiom(h)
	v := st.nameV("lookup", st.mapGet(h, k))
	if sEq(h.ref, "0") != "false" {
		// a nil map reads as empty: its rows are never written, and the axiom above needs dom = false there
		st.assume(sImp(sEq(h.ref, "0"), sNot(st.mapHas(h, k))))
	}
	has = st.nameV("has", vBool(has)).S
	if v.K == KInt && isRefType(h.vt) {
		st.assume("(< " + v.S + " " + st.ghost["alloc"] + ")")
	}
	if x.CommaOk {
		return &V{K: KTuple, T: x.Type(), F: []*V{v, vBool(has)}}
	}
	return v
}

func (s *State) mapPut(h *mapHandle, k string, v *V) {
	has := s.mapHas(h, k)
	card := s.comp(h.fam+"#card", 1, "Int")
	s.writeLeaf(h.fam+"#card", []string{h.ref}, "Int", sIte(has, sSel(card, h.ref), "(+ "+sSel(card, h.ref)+" 1)"))
	s.writeLeaf(h.fam+"#dom", []string{h.ref, k}, "Bool", "true")
	if h.sync {
		switch v.K {
		case KIface:
			s.writeLeaf(h.fam+"#val", []string{h.ref, k}, "Int", v.Val)
			s.writeLeaf(h.fam+"#vtag", []string{h.ref, k}, "Int", v.Tag)
		default:
			s.writeLeaf(h.fam+"#val", []string{h.ref, k}, "Int", v.S)
		}
		return
	}
	if st, ok := h.vt.Underlying().(*types.Struct); ok && st.NumFields() == 0 {
		return
	}
	s.writeAt(h.fam+"#val", []string{h.ref, k}, h.vt, v)
}

func (s *State) mapDel(h *mapHandle, k string) {
	has := s.mapHas(h, k)
	card := s.comp(h.fam+"#card", 1, "Int")
	s.writeLeaf(h.fam+"#card", []string{h.ref}, "Int", sIte(has, "(- "+sSel(card, h.ref)+" 1)", sSel(card, h.ref)))
	s.writeLeaf(h.fam+"#dom", []string{h.ref, k}, "Bool", "false")
	if h.sync {
		s.writeLeaf(h.fam+"#val", []string{h.ref, k}, "Int", "0")
		s.writeLeaf(h.fam+"#vtag", []string{h.ref, k}, "Int", "0")
		return
	}
	if st, ok := h.vt.Underlying().(*types.Struct); ok && st.NumFields() == 0 {
		return
	}
	s.writeAt(h.fam+"#val", []string{h.ref, k}, h.vt, s.zero(h.vt))
}

func (r *FnRun) execMapUpdate(st *State, fr *frame, x *ssa.MapUpdate) {
	base := r.val(st, x.Map)
	h := r.goMapHandle(base, x.Map.Type())
	k, ok := r.mapKey(st, r.val(st, x.Key))
	if !ok {
		r.abstractNote(st, "unsupported map key kind")
		return
	}
	if fr.top {
		r.oblige(st, "safety", "nil-map-write", nil, sNot(sEq(h.ref, "0")), r.posOf(x), fmt.Sprintf("b%d", x.Block().Index))
	}
	st.assume(sNot(sEq(h.ref, "0")))
	r.mapAccessCheck(st, fr, x, x.Map, true)
	st.mapPut(h, k, r.val(st, x.Value))
}

// range over a map (or string): iterator object with a ghost visited set
func (r *FnRun) execRange(st *State, x *ssa.Range) *V {
	base := r.val(st, x.X)
	if _, ok := x.X.Type().Underlying().(*types.Map); !ok {
		r.abstractNote(st, "range over string")
		return vInt(r.fresh("iter", "Int"), x.Type())
	}
	it := st.allocRef()
	st.heap["iter#visited"] = r.rowReset(st, "iter#visited", it, "Bool", "false")
	st.writeLeaf("iter#map", []string{it}, "Int", base.S)
	st.writeLeaf("iter#count", []string{it}, "Int", "0")
	v := vInt(it, x.Type())
	v.Prov = "maprange"
	v.L2 = r.goMapHandle(base, x.X.Type())
	return v
}

func (r *FnRun) execNext(st *State, fr *frame, b *ssa.BasicBlock, i int, x *ssa.Next) {
	itv := r.val(st, x.Iter)
	tt := x.Type().(*types.Tuple)
	if itv.L2 == nil {
		r.abstractNote(st, "next on unsupported iterator")
		st.regs[x] = st.sym("next", x.Type())
		r.exec(st, fr, b, i+1)
		return
	}
	h := itv.L2
	it := itv.S
	visited := func(s *State) string { return sSel(s.comp("iter#visited", 2, "Bool"), it) }
	dom := func(s *State) string { return sSel(s.comp(h.fam+"#dom", 2, "Bool"), h.ref) }
	// done: every key of the map has been visited
	s1 := st.clone()
	q := mangle("q:k")
	if sEq(h.ref, "0") != "true" {
		s1.assume("(forall ((" + q + " Int)) (! (=> (select " + dom(s1) + " " + q + ") (select " + visited(s1) + " " + q + ")) :pattern ((select " + dom(s1) + " " + q + "))))")
	}
	// every key is produced exactly once: when the iteration ends, as many keys were produced as the map holds
	card := sIte(sEq(h.ref, "0"), "0", sSel(s1.comp(h.fam+"#card", 1, "Int"), h.ref))
	s1.assume(sEq(sSel(s1.comp("iter#count", 1, "Int"), it), card))
	s1.regs[x] = &V{K: KTuple, T: x.Type(), F: []*V{vBool("false"), s1.zero(tt.At(1).Type()), s1.zero(tt.At(2).Type())}}
	s1.trail = append(s1.trail, "range-done")
	r.exec(s1, fr, b, i+1)
	// one more key
	s2 := st.clone()
	k := r.fresh("rangekey", "Int")
	s2.assume(sAnd(sNot(sEq(h.ref, "0")), sSel(dom(s2), k), sNot(sSel(visited(s2), k))))
	s2.writeLeaf("iter#visited", []string{it, k}, "Bool", "true")
	{
		cnt := sSel(s2.comp("iter#count", 1, "Int"), it)
		s2.assume(sAnd("(>= "+cnt+" 0)", "(< "+cnt+" "+sSel(s2.comp(h.fam+"#card", 1, "Int"), h.ref)+")"))
		s2.writeLeaf("iter#count", []string{it}, "Int", "(+ "+cnt+" 1)")
	}
	kv := s2.zero(tt.At(1).Type())
	if tt.At(1).Type() != types.Typ[types.Invalid] {
		switch r.eng.shape(h.kt) {
		case KInt:
			kv = vInt(k, h.kt)
		}
	}
	var vv *V
	if tt.At(2).Type() == types.Typ[types.Invalid] {
		vv = vInt("0", tt.At(2).Type())
	} else {
		vv = s2.mapGet(h, k)
	}
	if tt.At(1).Type() == types.Typ[types.Invalid] {
		kv = vInt("0", tt.At(1).Type())
	}
	s2.regs[x] = &V{K: KTuple, T: x.Type(), F: []*V{vBool("true"), kv, vv}}
	s2.trail = append(s2.trail, "range-next")
	r.exec(s2, fr, b, i+1)
}

// ---- jumps and loops ----

func (r *FnRun) jump(st *State, fr *frame, from, to *ssa.BasicBlock) {
	st.prev = from
	r.npaths++
	if r.npaths > maxPaths {
		if !r.pathCapHit {
			r.pathCapHit = true
			r.errs = append(r.errs, fmt.Sprintf("%s: path cap %d exceeded", r.relName, maxPaths))
		}
		return
	}
	li := r.loopsOf(fr.fn)
	if ord, ok := li.heads[to]; ok {
		invs := r.loopInvariants(fr, ord)
		if li.blocks[to][from] {
			r.ghostAtLoop(st, fr, ord, "loop-backedge", to)
			// back edge: invariant must be preserved
			for _, c := range invs {
				t, err := r.evalClause(st, fr, c, r.rangeIndexVars(st, to), "loop invariant")
				if err != nil {
					r.errs = append(r.errs, err.Error())
					continue
				}
				r.oblige(st, "inv-preserved", lbl(c, fmt.Sprintf("loop%d", ord)), c.Tags, t, fmt.Sprintf("%s:%d", c.fileOr(fr), c.Line), fmt.Sprintf("loop %d from b%d", ord, from.Index))
			}
			return
		}
		r.ghostAtLoop(st, fr, ord, "loop-entry", to)
		for _, c := range invs {
			t, err := r.evalClause(st, fr, c, r.rangeIndexVars(st, to), "loop invariant")
			if err != nil {
				r.errs = append(r.errs, err.Error())
				continue
			}
			r.oblige(st, "inv-established", lbl(c, fmt.Sprintf("loop%d", ord)), c.Tags, t, fmt.Sprintf("%s:%d", c.fileOr(fr), c.Line), fmt.Sprintf("loop %d", ord))
		}
		if len(invs) == 0 && fr.top && r.fc != nil && !r.fc.Trusted {
			r.noInvLoops = append(r.noInvLoops, fmt.Sprintf("%s loop %d", fr.fn.Name(), ord))
		}
		if fr.top && r.loopModular(ord) {
			anchor := fmt.Sprintf("loop%d(modular)", ord)
			for _, ds := range st.deferStacks {
				if len(ds) != 0 {
					r.errs = append(r.errs, fmt.Sprintf("%s: modular loop %d reached with pending defers", r.relName, ord))
					return
				}
			}
			if r.loopDone == nil {
				r.loopDone = map[*ssa.BasicBlock]bool{}
			}
			if r.loopDone[to] {
				return
			}
			r.loopDone[to] = true
			g := r.genericState(st)
			g.prev = from
			r.rangeIndexBound(g, to)
			for _, c := range invs {
				t, err := r.evalClause(g, fr, c, r.rangeIndexVars(g, to), "loop invariant")
				if err != nil {
					continue
				}
				g.assume(t)
			}
			g.trail = []string{anchor}
			r.exec(g, fr, to, 0)
			return
		}
		ms := r.modsetBlocks(fr.fn, li.blocks[to])
		if fr.fc != nil {
			for _, g := range fr.fc.Ghosts {
				if g.N == ord && (g.Anchor == "loop-backedge") {
					for _, fam := range g.Havoc {
						ms.fams[fam] = true
					}
				}
			}
		}
		r.applyHavoc(st, ms)
		r.rangeIndexBound(st, to)
		for _, c := range invs {
			t, err := r.evalClause(st, fr, c, r.rangeIndexVars(st, to), "loop invariant")
			if err != nil {
				continue
			}
			st.assume(t)
		}
		st.trail = append(st.trail, fmt.Sprintf("loop%d", ord))
	}
	r.exec(st, fr, to, 0)
}

func (r *FnRun) ghostAtLoop(st *State, fr *frame, ord int, anchor string, head *ssa.BasicBlock) {
	if fr.fc == nil {
		return
	}
	for _, g := range fr.fc.Ghosts {
		if g.Anchor != anchor || g.N != ord {
			continue
		}
		pre := st.clone()
		for _, fam := range g.Havoc {
			st.havocFamily(fam)
		}
		ctx := &EvalCtx{run: r, st: st, old: pre, vars: map[string]*V{}, fn: fr.fn, pkg: fr.fn.Pkg.Pkg, cs: fr.cs, what: "ghost update"}
		for k, v := range r.rangeIndexVars(st, head) {
			ctx.vars[k] = v
		}
		for k, v := range st.ghostParams {
			ctx.vars[k] = v
		}
		t, err := safeBool(ctx, g.Value, fr.fc.File, g.Line)
		if err != nil {
			r.errs = append(r.errs, err.Error())
			continue
		}
		st.assume(t)
	}
}

func lbl(c *Clause, def string) string {
	if c.Label != "" {
		return c.Label
	}
	return def
}

func (c *Clause) fileOr(fr *frame) string {
	if fr.fc != nil {
		return fr.fc.File
	}
	return ""
}

// rangeIndexVars binds `rangeindex` to the hidden index cell of the range loop whose head is `head`.
func (r *FnRun) rangeIndexVars(st *State, head *ssa.BasicBlock) map[string]*V {
	for _, ins := range head.Instrs {
		if nx, ok := ins.(*ssa.Next); ok {
			if it, ok := st.regs[nx.Iter]; ok && it.L2 != nil {
				return map[string]*V{"$iter": it}
			}
		}
	}
	for _, ins := range head.Instrs {
		if s, ok := ins.(*ssa.Store); ok {
			if a, ok := s.Addr.(*ssa.Alloc); ok && a.Comment == "rangeindex" {
				if v, ok := st.cells[a]; ok {
					return map[string]*V{"rangeindex": v}
				}
			}
		}
	}
	return nil
}

// rangeIndexBound: at the head of a range-over-slice loop the hidden index (before the increment) is below the
// length the loop compares against: it is -1 initially and otherwise passed that very comparison one iteration ago.
func (r *FnRun) rangeIndexBound(st *State, head *ssa.BasicBlock) {
	var cell *ssa.Alloc
	for _, ins := range head.Instrs {
		if s, ok := ins.(*ssa.Store); ok {
			if a, ok := s.Addr.(*ssa.Alloc); ok && a.Comment == "rangeindex" {
				cell = a
			}
		}
	}
	if cell == nil {
		return
	}
	for _, ins := range head.Instrs {
		if b, ok := ins.(*ssa.BinOp); ok && b.Op == token.LSS {
			if lv, ok := st.regs[b.Y]; ok && lv.K == KInt {
				if cv, ok := st.cells[cell]; ok {
					st.assume("(< " + cv.S + " " + lv.S + ")")
					st.assume("(>= " + lv.S + " 0)")
				}
			}
		}
	}
}

func (r *FnRun) loopInvariants(fr *frame, ord int) []*Clause {
	if fr.fc == nil {
		return nil
	}
	var out []*Clause
	for _, c := range fr.fc.Clauses {
		if c.Kind == "invariant" && c.N == ord {
			out = append(out, c)
		}
	}
	return out
}

// evalClause evaluates a boolean clause in the context of frame fr (locals visible).
func (r *FnRun) evalClause(st *State, fr *frame, c *Clause, extra map[string]*V, what string) (t string, err error) {
	defer func() {
		if e := recover(); e != nil {
			if ee, ok := e.(evalError); ok {
				err = fmt.Errorf("%s:%d: %s", c.fileOr(fr), c.Line, ee.msg)
				return
			}
			panic(e)
		}
	}()
	ctx := &EvalCtx{run: r, st: st, old: r.entryOf(fr), vars: map[string]*V{}, oldVars: st.params, fn: fr.fn, pkg: fr.fn.Pkg.Pkg, cs: fr.cs, what: what}
	for k, v := range st.ghostParams {
		ctx.vars[k] = v
	}
	for k, v := range extra {
		ctx.vars[k] = v
	}
	return ctx.boolOf(c.E), nil
}

func (r *FnRun) entryOf(fr *frame) *State {
	if fr.top {
		return r.entry
	}
	return r.entry
}

// ---- modification sets ----

type modset struct {
	cells map[*ssa.Alloc]bool
	fams  map[string]bool
	all   bool
	events bool
	failKeys map[string]bool // callees called directly in the blocks (failedCalls counters)
}

func newModset() *modset { return &modset{cells: map[*ssa.Alloc]bool{}, fams: map[string]bool{}} }

func (r *FnRun) modsetBlocks(fn *ssa.Function, blocks map[*ssa.BasicBlock]bool) *modset {
	ms := newModset()
	ms.failKeys = map[string]bool{}
	for _, b := range fn.Blocks {
		if blocks != nil && !blocks[b] {
			continue
		}
		for _, ins := range b.Instrs {
			r.modsetInstr(ms, ins, 0)
			if call, ok := ins.(*ssa.Call); ok && fn == r.fn {
				if name := r.calleeName(&call.Call); name != "" {
					if ms.failKeys == nil {
						ms.failKeys = map[string]bool{}
					}
					ms.failKeys[name] = true
				}
			}
		}
	}
	return ms
}

func (r *FnRun) addrRoot(v ssa.Value) (root ssa.Value) {
	for {
		switch x := v.(type) {
		case *ssa.FieldAddr:
			v = x.X
		case *ssa.IndexAddr:
			if _, ok := x.X.Type().Underlying().(*types.Pointer); ok {
				v = x.X
				continue
			}
			return x
		default:
			return v
		}
	}
}

func (r *FnRun) famsOfType(ms *modset, prefix string, t types.Type) {
	ms.fams[prefix] = true
}

// storeFams records which heap families a store through addr may modify.
func (r *FnRun) storeFams(ms *modset, addr ssa.Value, valT types.Type) {
	switch x := addr.(type) {
	case *ssa.FieldAddr:
		root := r.addrRoot(x)
		if a, ok := root.(*ssa.Alloc); ok && !a.Heap {
			ms.cells[a] = true
			return
		}
		st := x.X.Type().Underlying().(*types.Pointer).Elem()
		r.addTypeFams(ms, r.tn(st)+"."+r.structFields(st).Field(x.Field).Name(), valT)
	case *ssa.IndexAddr:
		r.addTypeFams(ms, "elem:"+r.tn(valT), valT)
	case *ssa.Alloc:
		if !x.Heap {
			ms.cells[x] = true
			return
		}
		r.addTypeFams(ms, "box:"+r.tn(valT), valT)
	default:
		r.addTypeFams(ms, "box:"+r.tn(valT), valT)
	}
}

func (r *FnRun) addTypeFams(ms *modset, fam string, t types.Type) {
	if stt, ok := t.Underlying().(*types.Struct); ok && !r.eng.opaque(t) {
		for i := 0; i < stt.NumFields(); i++ {
			ft := stt.Field(i).Type()
			if _, isS := ft.Underlying().(*types.Struct); isS && r.eng.opaque(ft) {
				ms.fams["box:"+r.tn(ft)] = true
				continue
			}
			r.addTypeFams(ms, r.tn(t)+"."+stt.Field(i).Name(), ft)
		}
		return
	}
	if r.eng.opaque(t) {
		ms.fams["box:"+r.tn(t)] = true
		return
	}
	ms.fams[fam] = true
}

func (r *FnRun) modsetInstr(ms *modset, ins ssa.Instruction, depth int) {
	switch x := ins.(type) {
	case *ssa.Store:
		r.storeFams(ms, x.Addr, x.Val.Type())
	case *ssa.MapUpdate:
		ms.fams["map:"+r.tn(x.Map.Type().Underlying())] = true
	case *ssa.Range, *ssa.Next:
		ms.fams["iter"] = true
	case *ssa.Send, *ssa.Select, *ssa.Go:
		ms.events = true
		ms.fams["ctxdone"] = true
	case *ssa.UnOp:
		if x.Op == token.ARROW {
			ms.events = true
			ms.fams["ctxdone"] = true
		}
	case *ssa.MakeMap:
		ms.fams["map:"+r.tn(x.Type().Underlying())] = true
	case *ssa.MakeSlice:
		ms.fams["elem:"+r.tn(x.Type().Underlying().(*types.Slice).Elem())] = true
	case *ssa.Alloc:
		if x.Heap {
			et := x.Type().Underlying().(*types.Pointer).Elem()
			if at, ok := et.Underlying().(*types.Array); ok {
				ms.fams["elem:"+r.tn(at.Elem())] = true
			} else {
				r.addTypeFams(ms, "box:"+r.tn(et), et)
				r.embeddedGhostFams(ms, et)
			}
		}
	case *ssa.MakeInterface:
		switch r.eng.shape(x.X.Type()) {
		case KStruct:
			r.addTypeFams(ms, "", x.X.Type())
		case KSlice:
			ms.fams["box:"+r.tn(x.X.Type())] = true
		}
	case *ssa.Convert:
		// []byte(s) allocates
	case *ssa.Call:
		r.modsetCall(ms, &x.Call, depth)
	case *ssa.Defer:
		r.modsetCall(ms, &x.Call, depth)
	}
}

func (r *FnRun) embeddedGhostFams(ms *modset, t types.Type) {
	stt, ok := t.Underlying().(*types.Struct)
	if !ok {
		return
	}
	if r.eng.opaque(t) {
		switch types.TypeString(t, nil) {
		case "sync.Mutex", "sync.RWMutex":
			ms.fams["held"] = true
		case "sync.Map":
			ms.fams["syncmap"] = true
		case "bytes.Buffer":
			ms.fams["buf"] = true
			ms.fams["bytes"] = true
		}
		return
	}
	for i := 0; i < stt.NumFields(); i++ {
		r.embeddedGhostFams(ms, stt.Field(i).Type())
	}
}

func (r *FnRun) modsetCall(ms *modset, c *ssa.CallCommon, depth int) {
	if c.IsInvoke() {
		key := ifaceMethodKey(c)
		if m, ok := ifaceModels[key]; ok {
			for _, f := range m.fams {
				ms.fams[f] = true
			}
			ms.events = ms.events || m.emits
			return
		}
		if fc := r.ifaceContract(c); fc != nil {
			if fc.Pure {
				return
			}
			for _, a := range fc.Assigns {
				ms.fams[a] = true
			}
		}
		ms.events = true
		ms.fams["ctxdone"] = true
		return
	}
	switch f := c.Value.(type) {
	case *ssa.Builtin:
		switch f.Name() {
		case "append":
			if sl, ok := c.Args[0].Type().Underlying().(*types.Slice); ok {
				r.addTypeFams(ms, "elem:"+r.tn(sl.Elem()), sl.Elem())
			}
		case "copy":
			if sl, ok := c.Args[0].Type().Underlying().(*types.Slice); ok {
				r.addTypeFams(ms, "elem:"+r.tn(sl.Elem()), sl.Elem())
			}
		case "delete":
			ms.fams["map:"+r.tn(c.Args[0].Type().Underlying())] = true
		case "close":
			ms.events = true
		}
		return
	case *ssa.Function:
		r.modsetStatic(ms, f, depth)
		return
	case *ssa.MakeClosure:
		r.modsetStatic(ms, f.Fn.(*ssa.Function), depth)
		return
	}
	// unknown function value
	if fc := r.functypeContract(c.Value.Type()); fc != nil {
		if fc.Pure {
			return
		}
		for _, a := range fc.Assigns {
			ms.fams[a] = true
		}
		if fc.ClosedWorld {
			// values of this type are the package's own literals: no user code, no trace events
			return
		}
	}
	ms.events = true
	ms.fams["ctxdone"] = true
}

func (r *FnRun) modsetStatic(ms *modset, f *ssa.Function, depth int) {
	key := f.String()
	if m, ok := extModels[key]; ok {
		for _, fam := range m.fams {
			ms.fams[fam] = true
		}
		ms.events = ms.events || m.emits
		return
	}
	if fc := r.eng.contractFor(f); fc != nil {
		if fc.Pure {
			return
		}
		if !fc.HasAssigns {
			ms.all = true
		}
		for _, a := range fc.Assigns {
			ms.fams[a] = true
		}
		if fc.Emits {
			ms.events = true
			ms.fams["ctxdone"] = true
		}
		if fc.Iterator {
			// the callback's effects are accounted for at the call site by the caller (closure argument)
		}
		return
	}
	if r.eng.isRepoPkg(pkgOfFn(f)) && len(f.Blocks) > 0 && depth < maxInlineDepth {
		for _, b := range f.Blocks {
			for _, ins := range b.Instrs {
				r.modsetInstr(ms, ins, depth+1)
			}
		}
		return
	}
	if !r.eng.isRepoPkg(pkgOfFn(f)) {
		// unmodelled external function: assumed to have no effect on modelled state
		return
	}
	ms.all = true
}

func pkgOfFn(f *ssa.Function) *types.Package {
	if f.Pkg != nil {
		return f.Pkg.Pkg
	}
	if f.Object() != nil {
		return f.Object().Pkg()
	}
	if p := f.Parent(); p != nil {
		return pkgOfFn(p)
	}
	return nil
}

func (r *FnRun) applyHavoc(st *State, ms *modset) {
	var cells []*ssa.Alloc
	for a := range ms.cells {
		cells = append(cells, a)
	}
	sort.Slice(cells, func(i, j int) bool { return cells[i].Pos() < cells[j].Pos() })
	for _, a := range cells {
		if _, ok := st.cells[a]; ok {
			st.cells[a] = st.sym("h."+a.Comment, a.Type().Underlying().(*types.Pointer).Elem())
			if a.Comment == "rangeindex" {
				// the hidden index of a range loop starts at -1 and is only ever incremented by the loop head
				st.assume("(>= " + st.cells[a].S + " (- 1))")
			}
		}
	}
	if ms.all {
		st.havocAllHeap(nil)
	} else {
		var fs []string
		for f := range ms.fams {
			fs = append(fs, f)
		}
		sort.Strings(fs)
		for _, f := range fs {
			if f == "ctxdone" {
				st.ctxDoneAdvance()
				continue
			}
			st.havocFamily(f)
		}
	}
	if ms.events || ms.all {
		st.eventsAdvance()
	}
	r.havocFailureCounts(st, ms.failKeys)
	st.bumpAlloc()
	// nothing known about nil-ness of previously checked terms is lost; keep st.nonNil
}

// ctxDoneAdvance: cancellation is monotone
func (s *State) ctxDoneAdvance() {
	old := s.comp("ctxdone", 1, "Bool")
	s.havocLeaf("ctxdone")
	nw := s.comp("ctxdone", 1, "Bool")
	s.assume("(forall ((c Int)) (! (=> (select " + old + " c) (select " + nw + " c)) :pattern ((select " + nw + " c))))")
}

// eventsAdvance: unknown number of events appended; the existing prefix is preserved
func (s *State) eventsAdvance() {
	n0 := s.ghost["ev.n"]
	n1 := s.run.fresh("ev.n", "Int")
	s.assume("(>= " + n1 + " " + n0 + ")")
	s.ghost["ev.n"] = n1
	s.callsAdvance()
	{
		old := s.comp("nrecv", 1, "Int")
		s.havocLeaf("nrecv")
		nw := s.comp("nrecv", 1, "Int")
		s.assume("(forall ((k Int)) (! (>= (select " + nw + " k) (select " + old + " k)) :pattern ((select " + nw + " k))))")
	}
	for _, leaf := range evLeaves {
		old := s.comp(leaf, 1, "Int")
		s.havocLeaf(leaf)
		nw := s.comp(leaf, 1, "Int")
		s.assume("(forall ((i Int)) (! (=> (< i " + n0 + ") (= (select " + nw + " i) (select " + old + " i))) :pattern ((select " + nw + " i))))")
	}
}

// callsAdvance: per-kind user-call counters only grow
func (s *State) callsAdvance() {
	old := s.comp("ncall", 1, "Int")
	s.havocLeaf("ncall")
	nw := s.comp("ncall", 1, "Int")
	s.assume("(forall ((k Int)) (! (>= (select " + nw + " k) (select " + old + " k)) :pattern ((select " + nw + " k))))")
	old2 := s.comp("ncallr", 2, "Int")
	s.havocLeaf("ncallr")
	nw2 := s.comp("ncallr", 2, "Int")
	s.assume("(forall ((k Int) (x Int)) (! (>= (select (select " + nw2 + " k) x) (select (select " + old2 + " k) x)) :pattern ((select (select " + nw2 + " k) x))))")
}

var evLeaves = []string{"ev.kind", "ev.a0", "ev.a1", "ev.a2", "ev.a3", "ev.a4", "ev.a5", "ev.a6", "ev.a7", "ev.a8", "ev.a9", "ev.a10", "ev.a11"}

// emit appends one event to the trace.
func (s *State) emit(kind string, args ...string) {
	n := s.ghost["ev.n"]
	s.writeLeaf("ev.kind", []string{n}, "Int", s.run.eng.strID(kind))
	for i := 0; i < 12; i++ {
		a := "0"
		if i < len(args) {
			a = args[i]
		}
		s.writeLeaf(fmt.Sprintf("ev.a%d", i), []string{n}, "Int", a)
	}
	nn := s.run.fresh("ev.n", "Int")
	s.assume(sEq(nn, "(+ "+n+" 1)"))
	s.ghost["ev.n"] = nn
	{
		id := s.run.eng.strID(kind)
		s.writeLeaf("ncall", []string{id}, "Int", "(+ "+sSel(s.comp("ncall", 1, "Int"), id)+" 1)")
		if len(args) > 0 && (strings.HasPrefix(kind, "call:") || strings.HasPrefix(kind, "callfn:")) {
			s.writeLeaf("ncallr", []string{id, args[0]}, "Int", "(+ "+selN(s.comp("ncallr", 2, "Int"), []string{id, args[0]})+" 1)")
		}
	}
}

// ---- defers ----

func (r *FnRun) runDefers(st *State, fr *frame, k func(*State)) {
	ds := st.deferStacks[fr.depth]
	if len(ds) == 0 {
		k(st)
		return
	}
	d := ds[len(ds)-1]
	st.deferStacks[fr.depth] = ds[:len(ds)-1]
	r.doCallWith(st, fr, d.instr, d.call, d.fnv, d.args, func(st2 *State, _ *V) {
		r.runDefers(st2, fr, k)
	})
}


// ---- cut points ----

func (r *FnRun) hasCuts() bool {
	if r.cutInit {
		return len(r.cutMap) > 0
	}
	r.cutInit = true
	r.cutMap = map[ssa.Instruction][]*Clause{}
	r.cutDone = map[ssa.Instruction]map[string]int{}
	var cuts []*Clause
	for _, c := range r.fc.Clauses {
		if c.Kind == "cut" {
			cuts = append(cuts, c)
		}
	}
	if len(cuts) == 0 {
		return false
	}
	// static call sites by callee name, in source order
	sites := map[string][]ssa.Instruction{}
	for _, b := range r.fn.Blocks {
		for _, ins := range b.Instrs {
			call, ok := ins.(*ssa.Call)
			if !ok {
				continue
			}
			name := r.calleeName(&call.Call)
			if name != "" {
				sites[name] = append(sites[name], ins)
			}
		}
	}
	for _, v := range sites {
		sort.SliceStable(v, func(i, j int) bool { return v[i].Pos() < v[j].Pos() })
	}
	for _, c := range cuts {
		v := sites[c.Name]
		if c.N < 1 || c.N > len(v) {
			r.errs = append(r.errs, fmt.Sprintf("%s:%d: cut anchor %s@%d not found (%d call sites)", r.fc.File, c.Line, c.Name, c.N, len(v)))
			continue
		}
		// the cut sits before the pure instructions (loads, address computations, conversions) that feed the call,
		// so that the call's operands are computed after it
		at := v[c.N-1]
		blk := at.Block()
		idx := 0
		for i, ins := range blk.Instrs {
			if ins == at {
				idx = i
			}
		}
		for idx > 0 {
			pure := false
			switch blk.Instrs[idx-1].(type) {
			case *ssa.UnOp, *ssa.FieldAddr, *ssa.IndexAddr, *ssa.Field, *ssa.Extract, *ssa.MakeInterface, *ssa.ChangeType,
				*ssa.Convert, *ssa.BinOp, *ssa.DebugRef, *ssa.ChangeInterface:
				pure = true
				if u, ok := blk.Instrs[idx-1].(*ssa.UnOp); ok && u.Op == token.ARROW {
					pure = false
				}
			}
			if !pure {
				break
			}
			idx--
		}
		at = blk.Instrs[idx]
		r.cutMap[at] = append(r.cutMap[at], c)
	}
	return len(r.cutMap) > 0
}

// calleeName names a call site the way atcall anchors do.
func (r *FnRun) calleeName(c *ssa.CallCommon) string {
	if c.IsInvoke() {
		return ifaceMethodKey(c)
	}
	f := c.StaticCallee()
	if f == nil {
		return ""
	}
	name := f.String()
	if r.eng.isRepoPkg(pkgOfFn(f)) {
		name = r.eng.relName(f)
	} else if i := strings.LastIndex(name, "/"); i >= 0 && strings.HasPrefix(name, "(*") {
		name = "(*" + name[i+1:]
	} else if i >= 0 {
		name = name[i+1:]
	}
	return name
}

func (r *FnRun) cutsAt(fr *frame, ins ssa.Instruction) []*Clause { return r.cutMap[ins] }

func (r *FnRun) atCut(st *State, fr *frame, b *ssa.BasicBlock, i int, ins ssa.Instruction, cs []*Clause) {
	anchor := fmt.Sprintf("cut %s@%d", cs[0].Name, cs[0].N)
	for _, c := range cs {
		t, err := r.evalClause(st, fr, c, nil, "cut")
		if err != nil {
			r.errs = append(r.errs, err.Error())
			continue
		}
		r.oblige(st, "cut", lbl(c, anchor), c.Tags, t, fmt.Sprintf("%s:%d", c.fileOr(fr), c.Line), anchor)
	}
	pending := false
	for _, ds := range st.deferStacks {
		if len(ds) != 0 {
			pending = true
		}
	}
	if pending {
		r.errs = append(r.errs, fmt.Sprintf("%s: %s reached with pending defers (%s)", r.relName, anchor, strings.Join(st.trail, " > ")))
		return
	}
	if len(st.active) != 0 {
		for _, on := range st.active {
			if on {
				r.errs = append(r.errs, fmt.Sprintf("%s: %s lies inside a loop", r.relName, anchor))
				return
			}
		}
	}
	// call ordinals used by anchors after the cut must not depend on the path taken to it
	ords := map[string]int{}
	for k, v := range st.callOrd {
		ords[k] = v
	}
	if prev, done := r.cutDone[ins]; done {
		after := func(callee string) bool {
			// does the callee have a call site after the cut (in source order)?
			for _, b := range r.fn.Blocks {
				for _, i2 := range b.Instrs {
					if call, ok := i2.(ssa.CallInstruction); ok && i2.Pos() > ins.Pos() && r.calleeName(call.Common()) == callee {
						return true
					}
				}
			}
			return false
		}
		for _, c := range r.fc.Clauses {
			if c.Kind == "atcall" && after(c.Name) && prev["atcall:"+c.Name] != ords["atcall:"+c.Name] {
				r.errs = append(r.errs, fmt.Sprintf("%s: %s: paths disagree on the ordinal of %s", r.relName, anchor, c.Name))
			}
		}
		for _, g := range r.fc.Ghosts {
			if g.Callee != "" && after(g.Callee) && prev[g.Callee] != ords[g.Callee] {
				r.errs = append(r.errs, fmt.Sprintf("%s: %s: paths disagree on the ordinal of %s", r.relName, anchor, g.Callee))
			}
		}
		return
	}
	r.cutDone[ins] = ords
	g := r.genericState(st)
	for _, c := range cs {
		t, err := r.evalClause(g, fr, c, nil, "cut")
		if err != nil {
			continue
		}
		g.assume(t)
	}
	g.trail = []string{anchor}
	g.skipCut = ins
	r.exec(g, fr, b, i)
}

// genericState: the entry facts, every register, local and heap component unknown (well-typed), the trace and
// allocation counter advanced since entry.
func (r *FnRun) genericState(st *State) *State {
	g := r.entry.clone()
	g.stack = st.stack
	g.lastArgs = nil
	g.depth = st.depth
	g.prev = st.prev
	g.callOrd = map[string]int{}
	for k, v := range st.callOrd {
		g.callOrd[k] = v
	}
	g.havocAllHeap(map[string]bool{"ev.kind": true, "ev.a0": true, "ev.a1": true, "ev.a2": true, "ev.a3": true, "ev.a4": true, "ev.a5": true,
		"ev.a6": true, "ev.a7": true, "ev.a8": true, "ev.a9": true, "ev.a10": true, "ev.a11": true, "ncall": true, "ncallr": true, "nrecv": true, "ctxdone": true})
	g.eventsAdvance()
	g.ctxDoneAdvance()
	g.bumpAlloc()
	r.havocFailureCounts(g, nil)
	type kv struct {
		k ssa.Value
		n string
	}
	var regs []kv
	for k := range st.regs {
		if _, ok := g.regs[k]; !ok {
			regs = append(regs, kv{k, k.Name()})
		}
	}
	sort.Slice(regs, func(i, j int) bool { return regs[i].n < regs[j].n })
	for _, x := range regs {
		v := st.regs[x.k]
		if v == nil {
			continue
		}
		if v.K == KLoc && v.L != nil && v.L.Cell != nil {
			g.regs[x.k] = v
			continue
		}
		if v.Fn != nil {
			nv := *v
			nv.Binds = nil
			for _, bv := range v.Binds {
				if bv.K == KLoc {
					nv.Binds = append(nv.Binds, bv)
				} else {
					nv.Binds = append(nv.Binds, g.sym("cut.bind", bv.T))
				}
			}
			g.regs[x.k] = &nv
			continue
		}
		func() {
			defer func() {
				if recover() != nil {
					// a value without a first-order shape (iterator etc.): left undefined; use after the cut is an error
				}
			}()
			g.regs[x.k] = g.sym("cut."+x.n, x.k.Type())
		}()
	}
	// registers that are pure functions of other registers keep that relation (e.g. the length a range loop
	// computed in its preheader is the length of the slice it indexes)
	for _, b := range r.fn.Blocks {
		for _, ins := range b.Instrs {
			v, isVal := ins.(ssa.Value)
			if !isVal {
				continue
			}
			if _, had := st.regs[v]; !had {
				continue
			}
			if _, fromEntry := r.entry.regs[v]; fromEntry {
				continue
			}
			switch x := ins.(type) {
			case *ssa.Call:
				bi, ok := x.Call.Value.(*ssa.Builtin)
				if !ok || len(x.Call.Args) != 1 || (bi.Name() != "len" && bi.Name() != "cap") {
					continue
				}
				a, ok := g.regs[x.Call.Args[0]]
				if !ok || a == nil || a.K != KSlice {
					continue
				}
				if bi.Name() == "len" {
					g.regs[v] = vInt(a.Len, x.Type())
				} else {
					g.regs[v] = vInt(a.Cap, x.Type())
				}
			case *ssa.Extract:
				if t, ok := g.regs[x.Tuple]; ok && t != nil && t.K == KTuple && x.Index < len(t.F) {
					g.regs[v] = t.F[x.Index]
				}
			case *ssa.Field:
				if t, ok := g.regs[x.X]; ok && t != nil && t.K == KStruct && x.Field < len(t.F) {
					g.regs[v] = t.F[x.Field]
				}
			}
		}
	}
	var cells []*ssa.Alloc
	for a := range st.cells {
		cells = append(cells, a)
	}
	sort.Slice(cells, func(i, j int) bool { return cells[i].Pos() < cells[j].Pos() })
	for _, a := range cells {
		if p := r.paramSpill(a); p != nil {
			if pv, ok := g.regs[p]; ok {
				g.cells[a] = pv
				continue
			}
		}
		g.cells[a] = g.sym("cut."+a.Comment, a.Type().Underlying().(*types.Pointer).Elem())
		if a.Comment == "rangeindex" {
			// the hidden index of a range loop starts at -1 and is only ever incremented by the loop head
			g.assume("(>= " + g.cells[a].S + " (- 1))")
		}
	}
	return g
}

// paramSpill: the parameter whose value the local cell holds for the whole activation (the cell is only ever
// written by the entry spill of that parameter and only read otherwise), or nil.
func (r *FnRun) paramSpill(a *ssa.Alloc) *ssa.Parameter {
	var p *ssa.Parameter
	refs := a.Referrers()
	if refs == nil {
		return nil
	}
	for _, u := range *refs {
		switch x := u.(type) {
		case *ssa.Store:
			if x.Addr != a || p != nil {
				return nil
			}
			pp, ok := x.Val.(*ssa.Parameter)
			if !ok {
				return nil
			}
			p = pp
		case *ssa.UnOp:
			if x.Op != token.MUL {
				return nil
			}
		case *ssa.DebugRef:
		default:
			return nil
		}
	}
	return p
}


// ---- failedCalls: per-activation count of direct calls that returned a non-nil error ----

// errResult: the error-typed last result of a call's value, or nil.
func errResult(c *ssa.CallCommon, res *V) *V {
	sig := c.Signature()
	n := sig.Results().Len()
	if n == 0 || res == nil {
		return nil
	}
	last := sig.Results().At(n - 1).Type()
	if types.TypeString(last, nil) != "error" {
		return nil
	}
	if n == 1 {
		if res.K == KIface {
			return res
		}
		return nil
	}
	if res.K == KTuple && len(res.F) == n && res.F[n-1].K == KIface {
		return res.F[n-1]
	}
	return nil
}

// errorConstructors return an error as their value, not as a report of their own failure.
func errorConstructor(name string) bool {
	for _, p := range []string{"fmt.Errorf", "errors.", "multierror.", "(*multierror.Error).", "(*go-multierror.Error).", "context.Context.Err", "go-multierror."} {
		if strings.HasPrefix(name, p) {
			return true
		}
	}
	return false
}

func (r *FnRun) countFailure(st *State, c *ssa.CallCommon, res *V) {
	e := errResult(c, res)
	if e == nil {
		return
	}
	name := r.calleeName(c)
	if name == "" || errorConstructor(name) {
		return
	}
	key := "fail:" + name
	cur, ok := st.ghost[key]
	if !ok {
		cur = "0"
	}
	nw := sIte(sEq(e.Tag, "0"), cur, "(+ "+cur+" 1)")
	if len(nw) > 120 {
		n := r.fresh("fail", "Int")
		st.assume(sEq(n, nw))
		nw = n
	}
	st.ghost[key] = nw
}

// failKeys: callee names with a call site in the function under verification whose last result is an error.
func (r *FnRun) failKeys() []string {
	if r.failKeysDone {
		return r.failKeyList
	}
	r.failKeysDone = true
	seen := map[string]bool{}
	for _, b := range r.fn.Blocks {
		for _, ins := range b.Instrs {
			call, ok := ins.(*ssa.Call)
			if !ok {
				continue
			}
			sig := call.Call.Signature()
			n := sig.Results().Len()
			if n == 0 || types.TypeString(sig.Results().At(n-1).Type(), nil) != "error" {
				continue
			}
			if name := r.calleeName(&call.Call); name != "" && !seen[name] && !errorConstructor(name) {
				seen[name] = true
				r.failKeyList = append(r.failKeyList, name)
			}
		}
	}
	sort.Strings(r.failKeyList)
	return r.failKeyList
}

// havocFailureCounts: at a loop head or cut point nothing is known about the counts (invariants restate it).
func (r *FnRun) havocFailureCounts(st *State, only map[string]bool) {
	for _, name := range r.failKeys() {
		if only != nil && !only[name] {
			continue
		}
		n := r.fresh("fail", "Int")
		st.assume("(>= " + n + " 0)")
		st.ghost["fail:"+name] = n
	}
}


func (r *FnRun) loopModular(ord int) bool {
	if r.fc == nil {
		return false
	}
	for _, c := range r.fc.Clauses {
		if c.Kind == "loopmodular" && c.N == ord {
			return true
		}
	}
	return false
}
