package main

// Contract expression language: lexer + Pratt parser.

import (
	"fmt"
	"strconv"
	"strings"
	"unicode"
)

type Expr struct {
	Op    string // int str bool nil id field index call un bin forall exists old ite slice typeis
	Name  string // id name, field name, call name, operator
	Int   int64
	Str   string
	Bool  bool
	Args  []*Expr
	Bound []BoundVar
	Pos   int
	Trig  [][]*Expr
}

type BoundVar struct {
	Name string
	Type string // textual Go type (resolved later)
}

func (e *Expr) String() string {
	if e == nil {
		return "<nil>"
	}
	switch e.Op {
	case "int":
		return strconv.FormatInt(e.Int, 10)
	case "str":
		return strconv.Quote(e.Str)
	case "bool":
		return strconv.FormatBool(e.Bool)
	case "nil":
		return "nil"
	case "id":
		return e.Name
	case "field":
		return e.Args[0].String() + "." + e.Name
	case "index":
		return e.Args[0].String() + "[" + e.Args[1].String() + "]"
	case "call":
		var a []string
		for _, x := range e.Args {
			a = append(a, x.String())
		}
		return e.Name + "(" + strings.Join(a, ", ") + ")"
	case "un":
		return e.Name + e.Args[0].String()
	case "bin":
		return "(" + e.Args[0].String() + " " + e.Name + " " + e.Args[1].String() + ")"
	case "forall", "exists":
		var a []string
		for _, b := range e.Bound {
			a = append(a, b.Name+" "+b.Type)
		}
		return "(" + e.Op + " " + strings.Join(a, ", ") + " :: " + e.Args[0].String() + ")"
	case "old":
		return "old(" + e.Args[0].String() + ")"
	case "ite":
		return "(" + e.Args[0].String() + " ? " + e.Args[1].String() + " : " + e.Args[2].String() + ")"
	case "typeis":
		return "typeis(" + e.Args[0].String() + ", " + e.Str + ")"
	}
	return "?" + e.Op
}

type tok struct {
	kind string // id int str op eof
	text string
	pos  int
}

func lex(src string) ([]tok, error) {
	var toks []tok
	i := 0
	for i < len(src) {
		c := src[i]
		if c == ' ' || c == '\t' || c == '\n' || c == '\r' {
			i++
			continue
		}
		start := i
		switch {
		case unicode.IsLetter(rune(c)) || c == '_' || c == '$':
			for i < len(src) && (unicode.IsLetter(rune(src[i])) || unicode.IsDigit(rune(src[i])) || src[i] == '_' || src[i] == '$') {
				i++
			}
			toks = append(toks, tok{"id", src[start:i], start})
		case unicode.IsDigit(rune(c)):
			for i < len(src) && (unicode.IsDigit(rune(src[i])) || src[i] == 'x' || (src[i] >= 'a' && src[i] <= 'f') || (src[i] >= 'A' && src[i] <= 'F')) {
				i++
			}
			toks = append(toks, tok{"int", src[start:i], start})
		case c == '"':
			i++
			for i < len(src) && src[i] != '"' {
				if src[i] == '\\' {
					i++
				}
				i++
			}
			if i >= len(src) {
				return nil, fmt.Errorf("unterminated string at %d", start)
			}
			i++
			s, err := strconv.Unquote(src[start:i])
			if err != nil {
				return nil, fmt.Errorf("bad string %s", src[start:i])
			}
			toks = append(toks, tok{"str", s, start})
		default:
			ops := []string{"<==>", "==>", "::", "==", "!=", "<=", ">=", "&&", "||", "@pre", "..",
				"+", "-", "*", "/", "%", "<", ">", "!", "(", ")", "[", "]", ",", ".", "?", ":", "{", "}", "&"}
			matched := false
			for _, o := range ops {
				if strings.HasPrefix(src[i:], o) {
					toks = append(toks, tok{"op", o, start})
					i += len(o)
					matched = true
					break
				}
			}
			if !matched {
				return nil, fmt.Errorf("unexpected character %q at %d in %q", c, i, src)
			}
		}
	}
	toks = append(toks, tok{"eof", "", len(src)})
	return toks, nil
}

type parser struct {
	toks []tok
	p    int
	src  string
}

func parseExpr(src string) (*Expr, error) {
	toks, err := lex(src)
	if err != nil {
		return nil, err
	}
	ps := &parser{toks: toks, src: src}
	e, err := ps.expr(0)
	if err != nil {
		return nil, err
	}
	if ps.peek().kind != "eof" {
		return nil, fmt.Errorf("unexpected %q at %d in %q", ps.peek().text, ps.peek().pos, src)
	}
	return e, nil
}

func (ps *parser) peek() tok { return ps.toks[ps.p] }
func (ps *parser) next() tok { t := ps.toks[ps.p]; ps.p++; return t }
func (ps *parser) isOp(s string) bool {
	t := ps.peek()
	return t.kind == "op" && t.text == s
}
func (ps *parser) isId(s string) bool {
	t := ps.peek()
	return t.kind == "id" && t.text == s
}
func (ps *parser) expect(s string) error {
	if !ps.isOp(s) {
		return fmt.Errorf("expected %q, found %q at %d in %q", s, ps.peek().text, ps.peek().pos, ps.src)
	}
	ps.p++
	return nil
}

var binPrec = map[string]int{
	"<==>": 1, "==>": 2, "||": 3, "&&": 4,
	"==": 5, "!=": 5, "<": 5, "<=": 5, ">": 5, ">=": 5, "in": 5,
	"+": 6, "-": 6, "*": 7, "/": 7, "%": 7,
}

func (ps *parser) expr(minPrec int) (*Expr, error) {
	// quantifiers bind loosest
	if ps.isId("forall") || ps.isId("exists") {
		q := ps.next().text
		var bs []BoundVar
		for {
			if ps.peek().kind != "id" {
				return nil, fmt.Errorf("expected bound variable in %q", ps.src)
			}
			name := ps.next().text
			ty, err := ps.typeText()
			if err != nil {
				return nil, err
			}
			bs = append(bs, BoundVar{name, ty})
			if ps.isOp(",") {
				ps.next()
				continue
			}
			break
		}
		if err := ps.expect("::"); err != nil {
			return nil, err
		}
		// optional trigger groups: { e1, e2 } { e3 }
		var trigs [][]*Expr
		for ps.isOp("{") {
			ps.next()
			var grp []*Expr
			for {
				te, err := ps.expr(0)
				if err != nil {
					return nil, err
				}
				grp = append(grp, te)
				if ps.isOp(",") {
					ps.next()
					continue
				}
				break
			}
			if err := ps.expect("}"); err != nil {
				return nil, err
			}
			trigs = append(trigs, grp)
		}
		body, err := ps.expr(0)
		if err != nil {
			return nil, err
		}
		return &Expr{Op: q, Bound: bs, Args: []*Expr{body}, Trig: trigs}, nil
	}
	lhs, err := ps.unary()
	if err != nil {
		return nil, err
	}
	for {
		t := ps.peek()
		var op string
		if t.kind == "op" {
			op = t.text
		} else if t.kind == "id" && t.text == "in" {
			op = "in"
		}
		if op == "?" && minPrec <= 0 {
			ps.next()
			a, err := ps.expr(0)
			if err != nil {
				return nil, err
			}
			if err := ps.expect(":"); err != nil {
				return nil, err
			}
			b, err := ps.expr(0)
			if err != nil {
				return nil, err
			}
			lhs = &Expr{Op: "ite", Args: []*Expr{lhs, a, b}}
			continue
		}
		prec, ok := binPrec[op]
		if !ok || prec < minPrec {
			return lhs, nil
		}
		ps.next()
		var rhs *Expr
		if op == "==>" { // right assoc
			rhs, err = ps.expr(prec)
		} else {
			rhs, err = ps.expr(prec + 1)
		}
		if err != nil {
			return nil, err
		}
		lhs = &Expr{Op: "bin", Name: op, Args: []*Expr{lhs, rhs}}
	}
}

// typeText reads a Go-ish type: [*]*, [], map[K]V, pkg.Name, Name
func (ps *parser) typeText() (string, error) {
	var b strings.Builder
	for {
		if ps.isOp("*") {
			ps.next()
			b.WriteString("*")
			continue
		}
		if ps.isOp("[") {
			ps.next()
			if err := ps.expect("]"); err != nil {
				return "", err
			}
			b.WriteString("[]")
			continue
		}
		break
	}
	if ps.peek().kind != "id" {
		return "", fmt.Errorf("expected type name at %d in %q", ps.peek().pos, ps.src)
	}
	b.WriteString(ps.next().text)
	if ps.isOp(".") && ps.toks[ps.p+1].kind == "id" {
		ps.next()
		b.WriteString("." + ps.next().text)
	}
	return b.String(), nil
}

func (ps *parser) unary() (*Expr, error) {
	if ps.isOp("!") || ps.isOp("-") {
		op := ps.next().text
		a, err := ps.unary()
		if err != nil {
			return nil, err
		}
		if op == "-" && a.Op == "int" {
			return &Expr{Op: "int", Int: -a.Int}, nil
		}
		return &Expr{Op: "un", Name: op, Args: []*Expr{a}}, nil
	}
	return ps.postfix()
}

func (ps *parser) postfix() (*Expr, error) {
	e, err := ps.primary()
	if err != nil {
		return nil, err
	}
	for {
		switch {
		case ps.isOp("."):
			ps.next()
			if ps.peek().kind != "id" {
				return nil, fmt.Errorf("expected field name at %d in %q", ps.peek().pos, ps.src)
			}
			e = &Expr{Op: "field", Name: ps.next().text, Args: []*Expr{e}}
		case ps.isOp("["):
			ps.next()
			// slice or index
			var lo, hi *Expr
			if !ps.isOp(":") {
				lo, err = ps.expr(0)
				if err != nil {
					return nil, err
				}
			}
			if ps.isOp(":") {
				ps.next()
				if !ps.isOp("]") {
					hi, err = ps.expr(0)
					if err != nil {
						return nil, err
					}
				}
				if err := ps.expect("]"); err != nil {
					return nil, err
				}
				e = &Expr{Op: "slice", Args: []*Expr{e, lo, hi}}
				continue
			}
			if err := ps.expect("]"); err != nil {
				return nil, err
			}
			e = &Expr{Op: "index", Args: []*Expr{e, lo}}
		case ps.isOp("@pre"):
			ps.next()
			e = &Expr{Op: "old", Args: []*Expr{e}}
		default:
			return e, nil
		}
	}
}

func (ps *parser) primary() (*Expr, error) {
	t := ps.next()
	switch t.kind {
	case "int":
		n, err := strconv.ParseInt(t.text, 0, 64)
		if err != nil {
			return nil, err
		}
		return &Expr{Op: "int", Int: n}, nil
	case "str":
		return &Expr{Op: "str", Str: t.text}, nil
	case "id":
		switch t.text {
		case "true", "false":
			return &Expr{Op: "bool", Bool: t.text == "true"}, nil
		case "nil":
			return &Expr{Op: "nil"}, nil
		case "old", "entry":
			if err := ps.expect("("); err != nil {
				return nil, err
			}
			a, err := ps.expr(0)
			if err != nil {
				return nil, err
			}
			if err := ps.expect(")"); err != nil {
				return nil, err
			}
			return &Expr{Op: t.text, Args: []*Expr{a}}, nil
		case "typeis":
			// typeis(expr, TypeText)
			if err := ps.expect("("); err != nil {
				return nil, err
			}
			a, err := ps.expr(0)
			if err != nil {
				return nil, err
			}
			if err := ps.expect(","); err != nil {
				return nil, err
			}
			ty, err := ps.typeText()
			if err != nil {
				return nil, err
			}
			if err := ps.expect(")"); err != nil {
				return nil, err
			}
			return &Expr{Op: "typeis", Str: ty, Args: []*Expr{a}}, nil
		}
		if ps.isOp("(") {
			ps.next()
			var args []*Expr
			for !ps.isOp(")") {
				a, err := ps.expr(0)
				if err != nil {
					return nil, err
				}
				args = append(args, a)
				if ps.isOp(",") {
					ps.next()
				} else {
					break
				}
			}
			if err := ps.expect(")"); err != nil {
				return nil, err
			}
			return &Expr{Op: "call", Name: t.text, Args: args}, nil
		}
		return &Expr{Op: "id", Name: t.text}, nil
	case "op":
		if t.text == "(" {
			e, err := ps.expr(0)
			if err != nil {
				return nil, err
			}
			if err := ps.expect(")"); err != nil {
				return nil, err
			}
			return e, nil
		}
	}
	return nil, fmt.Errorf("unexpected %q at %d in %q", t.text, t.pos, ps.src)
}
