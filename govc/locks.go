package main

// Lock discipline: guarded_by / immutable declarations and lock invariants.

import (
	"fmt"
	"go/token"
	"go/types"

	"golang.org/x/tools/go/ssa"
)

func (r *FnRun) declOf(t types.Type) *TypeDecl {
	n, ok := t.(*types.Named)
	if !ok {
		return nil
	}
	cs := r.eng.contracts[pkgPathOf(n)]
	if cs == nil {
		return nil
	}
	return cs.Types[n.Obj().Name()]
}

func (r *FnRun) rootRef(ref string) string {
	for {
		p, ok := r.rootOf[ref]
		if !ok {
			return ref
		}
		ref = p
	}
}

// guardGoal builds the proof goal for an access to field `field` of `owner` at ownerRef.
func (r *FnRun) guardGoal(st *State, owner types.Type, ownerRef, lockSpec string, write bool) (string, bool) {
	held := st.comp("held", 1, "Int")
	need := func(h string) string {
		if write {
			return sEq(h, "2")
		}
		return "(>= " + h + " 1)"
	}
	var goal string
	on, _ := owner.(*types.Named)
	if i := indexByte(lockSpec, '.'); i >= 0 {
		// Owner.lock: instance-insensitive – some lock of that kind is held
		ownerName, lf := lockSpec[:i], lockSpec[i+1:]
		if on == nil || on.Obj().Pkg() == nil {
			return "", false
		}
		o := on.Obj().Pkg().Scope().Lookup(ownerName)
		if o == nil {
			r.errs = append(r.errs, "guarded_by: unknown owner type "+ownerName)
			return "", false
		}
		_ = r.fa(o.Type(), lf, "0")
		id := r.eng.faIDs[mangle("fa:"+r.tn(o.Type())+"."+lf)]
		// candidates: every lock identity this path has named (acquired, or mentioned in a requires clause)
		var ds []string
		for _, c := range r.lockCands {
			ds = append(ds, sAnd(fmt.Sprintf("(= (objkind %s) %d)", c, id), need("(select "+held+" "+c+")")))
		}
		goal = sOr(ds...)
	} else {
		lock := r.fa(owner, lockSpec, ownerRef)
		goal = need(sSel(held, lock))
	}
	// objects allocated by this very call are not shared yet
	root := r.rootRef(ownerRef)
	return sOr(goal, "(>= "+root+" "+r.entryAlloc+")"), true
}

func indexByte(s string, c byte) int {
	for i := 0; i < len(s); i++ {
		if s[i] == c {
			return i
		}
	}
	return -1
}

func (r *FnRun) accessCheck(st *State, fr *frame, ins ssa.Instruction, l *Loc, write bool) {
	if l.Owner == nil || l.Cell != nil {
		return
	}
	td := r.declOf(l.Owner)
	if td == nil {
		return
	}
	on := l.Owner.(*types.Named).Obj().Name()
	if lock, ok := td.GuardedBy[l.Field]; ok {
		goal, ok := r.guardGoal(st, l.Owner, l.OwnerRef, lock, write)
		if ok {
			rw := "read"
			if write {
				rw = "write"
			}
			key := fmt.Sprintf("%s:%s.%s@%s", rw, on, l.Field, r.posOf(ins))
			if !st.guardSeen[key] {
				st.guardSeen[key] = true
				r.oblige(st, "guarded", rw+":"+on+"."+l.Field, nil, goal, r.posOf(ins), fmt.Sprintf("%s b%d", fr.fn.Name(), ins.Block().Index))
			}
		}
	}
	if write && td.Immutable[l.Field] {
		root := r.rootRef(l.OwnerRef)
		r.oblige(st, "immutable", on+"."+l.Field, nil, "(>= "+root+" "+r.entryAlloc+")", r.posOf(ins), fmt.Sprintf("%s b%d", fr.fn.Name(), ins.Block().Index))
	}
}

// mapAccessCheck: operations on the contents of a Go map loaded from a guarded field need the lock too.
func (r *FnRun) mapAccessCheck(st *State, fr *frame, ins ssa.Instruction, mapVal ssa.Value, write bool) {
	u, ok := mapVal.(*ssa.UnOp)
	if !ok || u.Op != token.MUL {
		return
	}
	fa, ok := u.X.(*ssa.FieldAddr)
	if !ok {
		return
	}
	owner := fa.X.Type().Underlying().(*types.Pointer).Elem()
	td := r.declOf(owner)
	if td == nil {
		return
	}
	field := r.structFields(owner).Field(fa.Field).Name()
	lock, ok := td.GuardedBy[field]
	if !ok {
		return
	}
	base, ok := st.regs[fa.X]
	if !ok || base.K != KInt {
		return
	}
	goal, ok := r.guardGoal(st, owner, base.S, lock, write)
	if !ok {
		return
	}
	rw := "mapread"
	if write {
		rw = "mapwrite"
	}
	on := owner.(*types.Named).Obj().Name()
	r.oblige(st, "guarded", rw+":"+on+"."+field, nil, goal, r.posOf(ins), fmt.Sprintf("%s b%d", fr.fn.Name(), ins.Block().Index))
}

// lockInvAcquire: hook for lock invariants (assumed on acquire). Declared per type as
// "type T lockinv l: expr" – not yet used.
func (r *FnRun) lockInvAcquire(st *State, fr *frame, instr ssa.Instruction, id string) {}

func (r *FnRun) addLockCand(id string) {
	for _, c := range r.lockCands {
		if c == id {
			return
		}
	}
	r.lockCands = append(r.lockCands, id)
}
