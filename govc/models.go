package main

// Trusted models of library functions called by code under contract. Every model used in a run is listed in
// the evidence file's trusted_base.

import (
	"fmt"
	"reflect"
	"go/constant"
	"go/types"
	"strings"

	"golang.org/x/tools/go/ssa"
)

type modelFn func(r *FnRun, st *State, fr *frame, instr ssa.Instruction, args []*V, k func(*State, *V))

type model struct {
	fn    modelFn
	fams  []string // heap families the model may modify (for loop havoc)
	emits bool
	doc   string
}

var extModels = map[string]*model{}
var ifaceModels = map[string]*model{}

func simple(f func(r *FnRun, st *State, instr ssa.Instruction, args []*V) *V) modelFn {
	return func(r *FnRun, st *State, fr *frame, instr ssa.Instruction, args []*V, k func(*State, *V)) {
		k(st, f(r, st, instr, args))
	}
}

func unit() *V { return &V{K: KTuple} }

func resType(instr ssa.Instruction) types.Type {
	if v, ok := instr.(ssa.Value); ok {
		return v.Type()
	}
	return nil
}

func callCommon(instr ssa.Instruction) *ssa.CallCommon {
	switch x := instr.(type) {
	case *ssa.Call:
		return &x.Call
	case *ssa.Defer:
		return &x.Call
	case *ssa.Go:
		return &x.Call
	}
	return nil
}

// newError makes a fresh non-nil error value of an anonymous library type.
func (r *FnRun) newError(st *State, t types.Type, kind string) *V {
	id := r.eng.typeIDByName("errtype:" + kind)
	ref := st.allocRef()
	r.eng.declare("(declare-fun wraps (Int Int Int Int) Bool)")
	v := &V{K: KIface, T: t, Tag: id, Val: ref}
	st.assume("(wraps " + v.Tag + " " + v.Val + " " + v.Tag + " " + v.Val + ")")
	return v
}

func (e *Engine) typeIDByName(k string) string {
	id, ok := e.typeIDs[k]
	if !ok {
		id = len(e.typeIDs) + 1
		e.typeIDs[k] = id
		e.typeByID = append(e.typeByID, types.Typ[types.Invalid])
	}
	return fmt.Sprintf("%d", id)
}

func (r *FnRun) assumeWraps(st *State, a, b *V) {
	r.eng.declare("(declare-fun wraps (Int Int Int Int) Bool)")
	st.assume(sImp(sNot(sEq(b.Tag, "0")), "(wraps "+a.Tag+" "+a.Val+" "+b.Tag+" "+b.Val+")"))
}

// varargs reads the i-th element of a variadic []any argument.
func (r *FnRun) sliceElem(st *State, s *V, i int, et types.Type) *V {
	return st.load(st.elemLoc(s.Arr, st.ixTerm(s.Off, sInt(int64(i))), et))
}

func constString(instr ssa.Instruction, argIdx int) (string, bool) {
	c := callCommon(instr)
	if c == nil || argIdx >= len(c.Args) {
		return "", false
	}
	if k, ok := c.Args[argIdx].(*ssa.Const); ok && k.Value != nil && k.Value.Kind() == constant.String {
		return constant.StringVal(k.Value), true
	}
	return "", false
}

func verbs(format string) []byte {
	var out []byte
	for i := 0; i < len(format); i++ {
		if format[i] != '%' {
			continue
		}
		i++
		for i < len(format) && strings.ContainsRune("+-# 0123456789.", rune(format[i])) {
			i++
		}
		if i < len(format) && format[i] != '%' {
			out = append(out, format[i])
		}
	}
	return out
}

func init() {
	anyT := types.NewInterfaceType(nil, nil)
	errT := types.Universe.Lookup("error").Type()

	extModels["fmt.Errorf"] = &model{doc: "returns a fresh non-nil error; wraps each %w argument", fn: simple(func(r *FnRun, st *State, instr ssa.Instruction, args []*V) *V {
		e := r.newError(st, errT, "fmt.Errorf")
		if f, ok := constString(instr, 0); ok {
			for i, vb := range verbs(f) {
				if vb == 'w' && args[1].K == KSlice {
					el := r.sliceElem(st, args[1], i, anyT)
					r.assumeWraps(st, e, el)
				}
			}
		}
		return e
	})}
	extModels["errors.New"] = &model{doc: "returns a fresh non-nil error", fn: simple(func(r *FnRun, st *State, instr ssa.Instruction, args []*V) *V {
		return r.newError(st, errT, "errors.New")
	})}
	extModels["errors.Join"] = &model{doc: "nil iff all arguments nil; otherwise a fresh error wrapping every non-nil argument", fn: simple(func(r *FnRun, st *State, instr ssa.Instruction, args []*V) *V {
		s := args[0]
		if !isIntLit(s.Len) {
			r.abstractNote(st, "errors.Join with a non-literal argument count")
			return st.sym("join", errT)
		}
		var n int
		fmt.Sscanf(s.Len, "%d", &n)
		var els []*V
		var allNil []string
		for i := 0; i < n; i++ {
			el := r.sliceElem(st, s, i, errT)
			els = append(els, el)
			allNil = append(allNil, sEq(el.Tag, "0"))
		}
		e := r.newError(st, errT, "errors.Join")
		for _, el := range els {
			r.assumeWraps(st, e, el)
		}
		ev := &EvalCtx{run: r, st: st}
		return ev.iteV(sAnd(allNil...), st.zero(errT), e)
	})}
	extModels["errors.Is"] = &model{doc: "errors.Is(err, target) = wraps(err, target) (reflexive)", fn: simple(func(r *FnRun, st *State, instr ssa.Instruction, args []*V) *V {
		r.eng.declare("(declare-fun wraps (Int Int Int Int) Bool)")
		a, b := args[0], args[1]
		return vBool(sOr(sAnd(sEq(a.Tag, b.Tag), sEq(a.Val, b.Val)), sAnd(sNot(sEq(a.Tag, "0")), "(wraps "+a.Tag+" "+a.Val+" "+b.Tag+" "+b.Val+")")))
	})}
	extModels["github.com/hashicorp/go-multierror.Append"] = &model{doc: "returns a non-nil *multierror.Error wrapping err and every non-nil appended error; ErrorOrNil of it is non-nil iff it holds an error", fn: simple(func(r *FnRun, st *State, instr ssa.Instruction, args []*V) *V {
		rt := resType(instr)
		ref := st.allocRef()
		out := vInt(ref, rt)
		// ghost: number of errors held (a typed-nil *Error counts as empty, as in the library)
		st.assume(sEq(sSel(st.comp("multierror#n", 1, "Int"), "0"), "0"))
		prev := "0"
		if args[0].K == KIface {
			// err may itself be a *multierror.Error (flattened) or any error (1) or nil (0)
			cnt := sSel(st.comp("multierror#n", 1, "Int"), args[0].Val)
			isME := sEq(args[0].Tag, r.eng.typeID(rt))
			prev = sIte(sEq(args[0].Tag, "0"), "0", sIte(isME, cnt, "1"))
		}
		add := "0"
		if len(args) > 1 && args[1].K == KSlice && isIntLit(args[1].Len) {
			var n int
			fmt.Sscanf(args[1].Len, "%d", &n)
			for i := 0; i < n; i++ {
				el := r.sliceElem(st, args[1], i, errT)
				add = "(+ " + add + " " + sIte(sEq(el.Tag, "0"), "0", "1") + ")"
				me := &V{K: KIface, Tag: r.eng.typeID(rt), Val: ref}
				r.assumeWraps(st, me, el)
			}
		} else {
			add = r.fresh("me.add", "Int")
			st.assume("(>= " + add + " 0)")
		}
		if args[0].K == KIface {
			me := &V{K: KIface, Tag: r.eng.typeID(rt), Val: ref}
			r.assumeWraps(st, me, args[0])
			// whatever the previous error wrapped is still wrapped (flattening / chaining)
			st.assume("(forall ((t Int) (v Int)) (! (=> (wraps " + args[0].Tag + " " + args[0].Val + " t v) (wraps " + me.Tag + " " + me.Val + " t v)) :pattern ((wraps " + args[0].Tag + " " + args[0].Val + " t v))))")
		}
		st.writeLeaf("multierror#n", []string{ref}, "Int", "(+ "+prev+" "+add+")")
		return out
	}), fams: []string{"multierror"}}
	extModels["(*github.com/hashicorp/go-multierror.Error).ErrorOrNil"] = &model{doc: "nil for a nil receiver or one holding no errors, otherwise the receiver as error", fn: simple(func(r *FnRun, st *State, instr ssa.Instruction, args []*V) *V {
		me := args[0]
		c := callCommon(instr)
		tag := r.eng.typeID(c.Args[0].Type())
		n := sSel(st.comp("multierror#n", 1, "Int"), me.S)
		isNil := sOr(sEq(me.S, "0"), sEq(n, "0"))
		ev := &EvalCtx{run: r, st: st}
		return ev.iteV(isNil, st.zero(errT), &V{K: KIface, T: errT, Tag: tag, Val: me.S})
	})}

	// ---- locks ----
	lockOp := func(name string, need string, set string, what string) *model {
		return &model{doc: what, fams: []string{"held", "lockacq"}, fn: func(r *FnRun, st *State, fr *frame, instr ssa.Instruction, args []*V, k func(*State, *V)) {
			id := identityLeaves(args[0])[0]
			r.addLockCand(id)
			held := sSel(st.comp("held", 1, "Int"), id)
			r.oblige(st, "lock", name, nil, sEq(held, need), r.posOf(instr), fmt.Sprintf("%s b%d", name, instr.Block().Index))
			st.assume(sEq(held, need))
			if set != "0" {
				// acquiring may block: time passes
				st.ctxDoneAdvance()
			}
			st.writeLeaf("held", []string{id}, "Int", set)
			if set != "0" {
				st.writeLeaf("lockacq", []string{id}, "Int", "(+ "+sSel(st.comp("lockacq", 1, "Int"), id)+" 1)")
				r.lockInvAcquire(st, fr, instr, id)
			}
			k(st, unit())
		}}
	}
	for _, t := range []string{"sync.RWMutex", "sync.Mutex"} {
		extModels["(*"+t+").Lock"] = lockOp("Lock", "0", "2", "acquire: requires the lock not held by this goroutine (non re-entrant); lockset[l] := W")
		extModels["(*"+t+").Unlock"] = lockOp("Unlock", "2", "0", "release: requires lockset[l] = W")
	}
	extModels["(*sync.RWMutex).RLock"] = lockOp("RLock", "0", "1", "acquire shared: requires the lock not held by this goroutine; lockset[l] := R")
	extModels["(*sync.RWMutex).RUnlock"] = lockOp("RUnlock", "1", "0", "release shared: requires lockset[l] = R")

	// ---- sync.Map (sequential view; keys by the value part of the key interface) ----
	smHandle := func(id string) *mapHandle {
		return &mapHandle{fam: "syncmap", ref: id, kt: types.Typ[types.Int], vt: types.Typ[types.Int], sync: true}
	}
	extModels["(*sync.Map).Store"] = &model{doc: "ghost view[key] := value (single atomic replacement)", fams: []string{"syncmap"}, emits: true, fn: simple(func(r *FnRun, st *State, instr ssa.Instruction, args []*V) *V {
		id := identityLeaves(args[0])[0]
		st.mapPut(smHandle(id), args[1].Val, args[2])
		st.emit("mapstore", id, args[1].Val, args[2].Val)
		return unit()
	})}
	extModels["(*sync.Map).Delete"] = &model{doc: "ghost view[key] removed", fams: []string{"syncmap"}, emits: true, fn: simple(func(r *FnRun, st *State, instr ssa.Instruction, args []*V) *V {
		id := identityLeaves(args[0])[0]
		st.mapDel(smHandle(id), args[1].Val)
		st.emit("mapdelete", id, args[1].Val)
		return unit()
	})}
	extModels["(*sync.Map).Load"] = &model{doc: "reads the ghost view", fn: simple(func(r *FnRun, st *State, instr ssa.Instruction, args []*V) *V {
		id := identityLeaves(args[0])[0]
		h := smHandle(id)
		has := st.mapHas(h, args[1].Val)
		anyT := types.NewInterfaceType(nil, nil)
		val := &V{K: KIface, T: anyT, Tag: selN(st.comp("syncmap#vtag", 2, "Int"), []string{id, args[1].Val}), Val: selN(st.comp("syncmap#val", 2, "Int"), []string{id, args[1].Val})}
		ev := &EvalCtx{run: r, st: st}
		_ = ev
		st.mapZeroAxiom(h)
		return &V{K: KTuple, T: resType(instr), F: []*V{st.nameV("smload", val), vBool(has)}}
	})}

	// ---- WaitGroup ----
	extModels["(*sync.WaitGroup).Add"] = &model{doc: "event wgadd(wg, n)", emits: true, fn: simple(func(r *FnRun, st *State, instr ssa.Instruction, args []*V) *V {
		st.emit("wgadd", identityLeaves(args[0])[0], args[1].S)
		return unit()
	})}
	extModels["(*sync.WaitGroup).Done"] = &model{doc: "event wgdone(wg)", emits: true, fn: simple(func(r *FnRun, st *State, instr ssa.Instruction, args []*V) *V {
		st.emit("wgdone", identityLeaves(args[0])[0])
		return unit()
	})}
	extModels["(*sync.WaitGroup).Wait"] = &model{doc: "event wgwait(wg); blocks", emits: true, fams: []string{"ctxdone"}, fn: simple(func(r *FnRun, st *State, instr ssa.Instruction, args []*V) *V {
		st.ctxDoneAdvance()
		st.emit("wgwait", identityLeaves(args[0])[0])
		return unit()
	})}

	// ---- context ----
	ifaceModels["context.Context.Done"] = &model{doc: "the Done channel: receiving from it is enabled iff the context is done", fn: simple(func(r *FnRun, st *State, instr ssa.Instruction, args []*V) *V {
		v := vInt(r.fresh("donechan", "Int"), resType(instr))
		v.Prov = "ctxdone:" + args[0].Val
		return v
	})}
	ifaceModels["context.Context.Err"] = &model{doc: "non-nil iff the context is done (cancellation may have happened at any earlier blocking point)", fams: []string{"ctxdone"}, fn: simple(func(r *FnRun, st *State, instr ssa.Instruction, args []*V) *V {
		st.ctxDoneAdvance()
		done := sSel(st.comp("ctxdone", 1, "Bool"), args[0].Val)
		r.eng.declare("(declare-fun ctxerr (Int) Int)")
		e := &V{K: KIface, T: errT, Tag: r.eng.typeIDByName("errtype:context"), Val: "(ctxerr " + args[0].Val + ")"}
		ev := &EvalCtx{run: r, st: st}
		return ev.iteV(done, e, st.zero(errT))
	})}
	ifaceModels["error.Error"] = &model{doc: "uninterpreted message", fn: simple(func(r *FnRun, st *State, instr ssa.Instruction, args []*V) *V {
		r.eng.declare("(declare-fun errmsg (Int Int) Int)")
		return vInt("(errmsg "+args[0].Tag+" "+args[0].Val+")", resType(instr))
	})}

	// ---- time ----
	extModels["time.Now"] = &model{doc: "havocked instant; event sys:now", fn: simple(func(r *FnRun, st *State, instr ssa.Instruction, args []*V) *V {
		return vInt(r.fresh("now", "Int"), resType(instr))
	})}
	extModels["time.Since"] = &model{doc: "havocked duration, a function of nothing (clock reading)", fn: simple(func(r *FnRun, st *State, instr ssa.Instruction, args []*V) *V {
		return vInt(r.fresh("since", "Int"), resType(instr))
	})}
	uf := func(name string, nargs int, doc string) *model {
		return &model{doc: doc, fn: simple(func(r *FnRun, st *State, instr ssa.Instruction, args []*V) *V {
			rt := resType(instr)
			var ts, sorts []string
			for _, a := range args {
				for _, l := range leavesSorted(a) {
					ts = append(ts, l[0])
					sorts = append(sorts, l[1])
				}
			}
			fn := mangle("uf:" + name)
			switch r.eng.shape(rt) {
			case KBool:
				r.eng.declare("(declare-fun " + fn + " (" + strings.Join(sorts, " ") + ") Bool)")
				return &V{K: KBool, T: rt, S: sApp(fn, ts...)}
			case KInt:
				r.eng.declare("(declare-fun " + fn + " (" + strings.Join(sorts, " ") + ") Int)")
				v := vInt(sApp(fn, ts...), rt)
				if isStringType(rt) {
					st.strLen(v.S)
				}
				return v
			}
			return st.sym(name, rt)
		})}
	}
	extModels["time.After"] = &model{doc: "a timer channel: its receive arm may fire at any time (timing is not modelled)", fn: simple(func(r *FnRun, st *State, instr ssa.Instruction, args []*V) *V {
		v := vInt(st.allocRef(), resType(instr))
		v.Prov = "timer"
		return v
	})}
	extModels["(time.Time).After"] = uf("time.After", 2, "uninterpreted order on instants")
	extModels["(time.Time).Before"] = uf("time.Before", 2, "uninterpreted order on instants")
	extModels["(time.Time).Add"] = uf("time.Add", 2, "uninterpreted")
	extModels["(time.Time).UnixNano"] = uf("time.UnixNano", 1, "uninterpreted")
	extModels["(time.Time).String"] = uf("time.String", 1, "uninterpreted")
	extModels["strconv.FormatInt"] = uf("strconv.FormatInt", 2, "uninterpreted function of its arguments")
	extModels["strings.ToLower"] = uf("strings.ToLower", 1, "uninterpreted function (axioms where contracts need them)")
	extModels["strings.TrimSuffix"] = uf("strings.TrimSuffix", 2, "uninterpreted function")
	extModels["path/filepath.Ext"] = uf("filepath.Ext", 1, "uninterpreted function")
	extModels["path/filepath.Join"] = &model{doc: "uninterpreted function of its (literal-count) arguments", fn: simple(func(r *FnRun, st *State, instr ssa.Instruction, args []*V) *V {
		s := args[0]
		rt := resType(instr)
		if !isIntLit(s.Len) {
			return st.sym("join", rt)
		}
		var n int
		fmt.Sscanf(s.Len, "%d", &n)
		var ts []string
		for i := 0; i < n; i++ {
			ts = append(ts, r.sliceElem(st, s, i, types.Typ[types.String]).S)
		}
		fn := fmt.Sprintf("|uf:filepath.Join%d|", n)
		r.eng.declare("(declare-fun " + fn + " (" + strings.Repeat("Int ", n) + ") Int)")
		return vInt(sApp(fn, ts...), rt)
	})}
	extModels["fmt.Sprintf"] = &model{doc: "uninterpreted function of the format and the (literal-count) arguments' identities", fn: simple(func(r *FnRun, st *State, instr ssa.Instruction, args []*V) *V {
		s := args[1]
		rt := resType(instr)
		if !isIntLit(s.Len) {
			return st.sym("sprintf", rt)
		}
		var n int
		fmt.Sscanf(s.Len, "%d", &n)
		ts := []string{args[0].S}
		for i := 0; i < n; i++ {
			el := r.sliceElem(st, s, i, anyT)
			ts = append(ts, el.Tag, el.Val)
		}
		fn := fmt.Sprintf("|uf:fmt.Sprintf%d|", n)
		r.eng.declare("(declare-fun " + fn + " (" + strings.Repeat("Int ", 1+2*n) + ") Int)")
		return vInt(sApp(fn, ts...), rt)
	})}
}

// ---- operating system, io: "sys" effects with havocked results ----

// sysCall emits event "sys:<name>" with a0..a4 = identity leaves of the arguments, a5..a7 = result leaves.
func sysCall(name string, post func(r *FnRun, st *State, args []*V, res []*V)) *model {
	return &model{doc: "Sys effect " + name + ": results havocked, recorded in the trace", emits: true, fams: []string{"ctxdone"},
		fn: func(r *FnRun, st *State, fr *frame, instr ssa.Instruction, args []*V, k func(*State, *V)) {
			c := callCommon(instr)
			sig := c.Signature()
			res := r.symResults(st, sig, "sys."+name)
			if post != nil {
				post(r, st, args, res)
			}
			ev := make([]string, 12)
			for i := range ev {
				ev[i] = "0"
			}
			i := 0
			for _, a := range args {
				if i > 4 {
					break
				}
				ev[i] = identityLeaves(a)[0]
				i++
			}
			j := 5
			for _, v := range res {
				for _, l := range intLeaves(v) {
					if j > 11 {
						break
					}
					ev[j] = l
					j++
				}
			}
			st.emit("sys:"+name, ev...)
			k(st, resultV(st, sig, res))
		}}
}

func init() {
	errOnly := func(r *FnRun, st *State, args []*V, res []*V) {}
	extModels["os.MkdirAll"] = sysCall("mkdirall", errOnly)
	extModels["os.Chmod"] = sysCall("chmod", errOnly)
	extModels["os.Rename"] = sysCall("rename", errOnly)
	extModels["os.Remove"] = sysCall("remove", errOnly)
	extModels["os.Stat"] = sysCall("stat", nil)
	extModels["github.com/mitchellh/pointerstructure.Set"] = sysCall("psset", nil)
	extModels["os.OpenFile"] = sysCall("openfile", func(r *FnRun, st *State, args []*V, res []*V) {
		// (file, err): exactly one of them is set; a returned file is a new object
		f, e := res[0], res[1]
		st.assume(sEq(sEq(f.S, "0"), sNot(sEq(e.Tag, "0"))))
		fresh := st.allocRef()
		st.assume(sImp(sEq(e.Tag, "0"), sEq(f.S, fresh)))
	})
	extModels["(*os.File).Close"] = sysCall("close", errOnly)
	extModels["github.com/mitchellh/copystructure.Copy"] = sysCall("deepcopy", func(r *FnRun, st *State, args []*V, res []*V) {
		// (copy, err): on success a new object of the same dynamic type whose contents are unconstrained; trace
		// event sys:deepcopy a0=source a5=tag of copy a6=copy
		c, e := res[0], res[1]
		fresh := st.allocRef()
		st.assume(sImp(sEq(e.Tag, "0"), sAnd(sEq(c.Tag, args[0].Tag), sEq(c.Val, fresh))))
		st.assume(sImp(sNot(sEq(e.Tag, "0")), sAnd(sEq(c.Tag, "0"), sEq(c.Val, "0"))))
	})
	extModels["path/filepath.Glob"] = sysCall("glob", func(r *FnRun, st *State, args []*V, res []*V) {
		// fresh slice
		fresh := st.allocRef()
		st.assume(sAnd(sEq(res[0].Arr, fresh), sEq(res[0].Off, "0")))
	})
	extModels["(*os.File).Name"] = &model{doc: "uninterpreted function of the file", fn: simple(func(r *FnRun, st *State, instr ssa.Instruction, args []*V) *V {
		r.eng.declare("(declare-fun |uf:file.Name| (Int) Int)")
		return vInt("(|uf:file.Name| "+args[0].S+")", resType(instr))
	})}
	extModels["os.IsNotExist"] = &model{doc: "uninterpreted predicate of the error", fn: simple(func(r *FnRun, st *State, instr ssa.Instruction, args []*V) *V {
		r.eng.declare("(declare-fun |uf:os.IsNotExist| (Int Int) Bool)")
		return vBool(sAnd(sNot(sEq(args[0].Tag, "0")), "(|uf:os.IsNotExist| "+args[0].Tag+" "+args[0].Val+")"))
	})}
	extModels["sort.Strings"] = &model{doc: "elements of the slice become sorted (permutation not modelled); length unchanged", fams: []string{"elem:string"}, fn: simple(func(r *FnRun, st *State, instr ssa.Instruction, args []*V) *V {
		s := args[0]
		leaf := "elem:string"
		old := st.comp(leaf, 2, "Int")
		st.havocLeaf(leaf)
		nw := st.comp(leaf, 2, "Int")
		x := mangle("q:x")
		st.assume("(forall ((" + x + " Int)) (! (=> (not (= " + x + " " + s.Arr + ")) (= (select " + nw + " " + x + ") (select " + old + " " + x + "))) :pattern ((select " + nw + " " + x + "))))")
		r.eng.declare("(declare-fun strless (Int Int) Bool)")
		i, j := mangle("q:i"), mangle("q:j")
		st.assume("(forall ((" + i + " Int) (" + j + " Int)) (=> (and (<= 0 " + i + ") (< " + i + " " + j + ") (< " + j + " " + s.Len + ")) (not (strless (select (select " + nw + " " + s.Arr + ") " + st.ixTerm(s.Off, j) + ") (select (select " + nw + " " + s.Arr + ") " + st.ixTerm(s.Off, i) + ")))))")
		return unit()
	})}

	// ---- bytes.Reader / bytes.Buffer ----
	extModels["bytes.NewReader"] = &model{doc: "fresh reader over the given bytes, position 0", fams: []string{"reader"}, fn: simple(func(r *FnRun, st *State, instr ssa.Instruction, args []*V) *V {
		ref := st.allocRef()
		st.writeLeaf("reader#arr", []string{ref}, "Int", args[0].Arr)
		st.writeLeaf("reader#off", []string{ref}, "Int", args[0].Off)
		st.writeLeaf("reader#len", []string{ref}, "Int", args[0].Len)
		st.writeLeaf("reader#pos", []string{ref}, "Int", "0")
		return vInt(ref, resType(instr))
	})}
	extModels["(*bytes.Reader).Seek"] = &model{doc: "Seek(0, io.SeekStart) rewinds; other seeks havoc the position", fams: []string{"reader"}, fn: simple(func(r *FnRun, st *State, instr ssa.Instruction, args []*V) *V {
		if args[1].S == "0" && args[2].S == "0" {
			st.writeLeaf("reader#pos", []string{args[0].S}, "Int", "0")
		} else {
			p := r.fresh("seekpos", "Int")
			st.assume("(>= " + p + " 0)")
			st.writeLeaf("reader#pos", []string{args[0].S}, "Int", p)
		}
		c := callCommon(instr)
		res := r.symResults(st, c.Signature(), "seek")
		return resultV(st, c.Signature(), res)
	})}
	extModels["(*bytes.Reader).WriteTo"] = &model{doc: "one Write of all remaining bytes to the writer (event sys:write a0=writer a1=array a2=offset a3=length); err == nil implies everything was written; a short write is an error", emits: true, fams: []string{"reader", "ctxdone"},
		fn: func(r *FnRun, st *State, fr *frame, instr ssa.Instruction, args []*V, k func(*State, *V)) {
			rd, w := args[0].S, args[1]
			arr := sSel(st.comp("reader#arr", 1, "Int"), rd)
			off := sSel(st.comp("reader#off", 1, "Int"), rd)
			ln := sSel(st.comp("reader#len", 1, "Int"), rd)
			pos := sSel(st.comp("reader#pos", 1, "Int"), rd)
			rem := st.nameV("rem", vInt("(- "+ln+" "+pos+")", nil)).S
			st.assume("(>= " + rem + " 0)")
			c := callCommon(instr)
			sig := c.Signature()
			res := r.symResults(st, sig, "writeto")
			n, e := res[0], res[1]
			st.assume(sAnd("(>= "+n.S+" 0)", "(<= "+n.S+" "+rem+")", sImp(sEq(e.Tag, "0"), sEq(n.S, rem))))
			st.ctxDoneAdvance()
			st.emit("sys:write", w.Val, arr, st.nameV("wpos", vInt("(+ "+off+" "+pos+")", nil)).S, rem, w.Tag, n.S, e.Tag, e.Val)
			st.writeLeaf("reader#pos", []string{rd}, "Int", "(+ "+pos+" "+n.S+")")
			k(st, resultV(st, sig, res))
		}}
	extModels["(*bytes.Buffer).Bytes"] = &model{doc: "the buffer's content as an abstract slice identified with the buffer state", fn: simple(func(r *FnRun, st *State, instr ssa.Instruction, args []*V) *V {
		id := identityLeaves(args[0])[0]
		arr := sSel(st.comp("buf#arr", 1, "Int"), id)
		content := sSel(st.comp("bytes#content", 1, "Int"), arr)
		r.eng.declare("(declare-fun |uf:content.len| (Int) Int)")
		ln := "(|uf:content.len| " + content + ")"
		st.assume("(>= " + ln + " 0)")
		// the slice aliases the buffer's array: later writes to / resets of the buffer are visible through it
		return &V{K: KSlice, T: resType(instr), Arr: arr, Off: "0", Len: ln, Cap: ln}
	})}
	extModels["(*bytes.Buffer).Reset"] = &model{doc: "content of the buffer's array := empty (slices obtained earlier from Bytes() alias it)", fams: []string{"bytes"}, fn: simple(func(r *FnRun, st *State, instr ssa.Instruction, args []*V) *V {
		arr := sSel(st.comp("buf#arr", 1, "Int"), identityLeaves(args[0])[0])
		st.writeLeaf("bytes#content", []string{arr}, "Int", "0")
		return unit()
	})}
	extModels["(*sync.Pool).Put"] = &model{doc: "the object is handed to whoever calls Get next: the content of a pooled bytes.Buffer is no longer under this call's control (havocked)", fams: []string{"bytes"}, fn: simple(func(r *FnRun, st *State, instr ssa.Instruction, args []*V) *V {
		if args[1].K == KIface {
			arr := sSel(st.comp("buf#arr", 1, "Int"), args[1].Val)
			st.writeLeaf("bytes#content", []string{arr}, "Int", r.fresh("pooled", "Int"))
		}
		return unit()
	})}
	extModels["(*sync.Pool).Get"] = &model{doc: "an arbitrary previously pooled (or new) object", fn: simple(func(r *FnRun, st *State, instr ssa.Instruction, args []*V) *V {
		return st.sym("pool.get", resType(instr))
	})}
}

// ---- encoding/json (uninterpreted: the line is a function of the encoded value's fields) ----
func init() {
	extModels["encoding/json.NewEncoder"] = &model{doc: "fresh encoder bound to the writer", fams: []string{"enc"}, fn: simple(func(r *FnRun, st *State, instr ssa.Instruction, args []*V) *V {
		ref := st.allocRef()
		st.writeLeaf("enc#w", []string{ref}, "Int", args[0].Val)
		st.writeLeaf("enc#indent", []string{ref}, "Int", "0")
		return vInt(ref, resType(instr))
	})}
	extModels["(*encoding/json.Encoder).SetIndent"] = &model{doc: "records the indent", fams: []string{"enc"}, fn: simple(func(r *FnRun, st *State, instr ssa.Instruction, args []*V) *V {
		st.writeLeaf("enc#indent", []string{args[0].S}, "Int", args[2].S)
		return unit()
	})}
	extModels["(*encoding/json.Encoder).Encode"] = &model{doc: "on success appends jsonline(indent, value fields) to the writer's buffer, on error appends nothing; jsonline is uninterpreted", fams: []string{"bytes"},
		fn: func(r *FnRun, st *State, fr *frame, instr ssa.Instruction, args []*V, k func(*State, *V)) {
			enc, v := args[0].S, args[1]
			c := callCommon(instr)
			// the encoded value's fields (when its static type is known)
			var ls []string
			name := "json.any"
			if mi, ok := c.Args[1].(*ssa.MakeInterface); ok {
				vt := mi.X.Type()
				inner := r.unbox(st, v, vt)
				if pt, ok := vt.Underlying().(*types.Pointer); ok {
					if _, isS := pt.Elem().Underlying().(*types.Struct); isS && !r.eng.opaque(pt.Elem()) {
						// a pointer to a struct encodes as the struct it points to
						vt = pt.Elem()
						inner = st.load(&Loc{T: vt, Obj: inner.S, Ref: inner.S})
					}
				}
				ls = intLeaves(inner)
				if stt, ok := vt.Underlying().(*types.Struct); ok {
					// the JSON member names are part of the function's identity
					var names []string
					for i := 0; i < stt.NumFields(); i++ {
						n := stt.Field(i).Name()
						if tag := reflectTag(stt.Tag(i), "json"); tag != "" {
							if p := strings.Split(tag, ","); p[0] != "" {
								n = p[0]
							}
							if strings.Contains(tag, ",omitempty") {
								n += "?"
							}
						}
						names = append(names, n)
					}
					name = "json{" + strings.Join(names, ",") + "}"
				}
			} else {
				ls = []string{v.Tag, v.Val}
			}
			fn := mangle("uf:" + name)
			r.eng.declare("(declare-fun " + fn + " (" + strings.Repeat("Int ", len(ls)+1) + ") Int)")
			indent := sSel(st.comp("enc#indent", 1, "Int"), enc)
			line := sApp(fn, append([]string{indent}, ls...)...)
			w := sSel(st.comp("enc#w", 1, "Int"), enc)
			warr := sSel(st.comp("buf#arr", 1, "Int"), w)
			old := sSel(st.comp("bytes#content", 1, "Int"), warr)
			r.eng.declare("(declare-fun |uf:append| (Int Int) Int)")
			errT := types.Universe.Lookup("error").Type()
			e := st.sym("json.err", errT)
			st.writeLeaf("bytes#content", []string{warr}, "Int", sIte(sEq(e.Tag, "0"), "(|uf:append| "+old+" "+line+")", old))
			st.emit("sys:jsonencode", enc, w, sIte(sEq(e.Tag, "0"), "1", "0"))
			k(st, e)
		}}
}

func boolsToInts(ls []string) []string { return ls }

func reflectTag(tag, key string) string {
	return reflect.StructTag(tag).Get(key)
}

func init() {
	ufModel := func(name string) *model {
		return &model{doc: "uninterpreted function of its arguments", fn: simple(func(r *FnRun, st *State, instr ssa.Instruction, args []*V) *V {
			rt := resType(instr)
			var ts, sorts []string
			for _, a := range args {
				for _, l := range leavesSorted(a) {
					ts = append(ts, l[0])
					sorts = append(sorts, l[1])
				}
			}
			fn := mangle("uf:" + name)
			r.eng.declare("(declare-fun " + fn + " (" + strings.Join(sorts, " ") + ") Int)")
			v := vInt(sApp(fn, ts...), rt)
			if isStringType(rt) {
				st.strLen(v.S)
			}
			return v
		})}
	}
	extModels["(*net/url.URL).String"] = ufModel("url.String")
	extModels["github.com/hashicorp/go-secure-stdlib/base62.Random"] = &model{doc: "(s, err): on success s has the requested length (randomness and uniqueness are not modelled)", fn: simple(func(r *FnRun, st *State, instr ssa.Instruction, args []*V) *V {
		c := callCommon(instr)
		res := r.symResults(st, c.Signature(), "base62")
		st.assume(sImp(sEq(res[1].Tag, "0"), sEq(st.strLen(res[0].S), args[0].S)))
		return resultV(st, c.Signature(), res)
	})}
	extModels["(*encoding/base64.Encoding).EncodeToString"] = &model{doc: "uninterpreted function of the encoding and the content of the bytes", fn: simple(func(r *FnRun, st *State, instr ssa.Instruction, args []*V) *V {
		content := sSel(st.comp("bytes#content", 1, "Int"), args[1].Arr)
		r.eng.declare("(declare-fun |uf:base64| (Int) Int)")
		return vInt("(|uf:base64| "+content+")", resType(instr))
	})}
	extModels["github.com/hashicorp/go-secure-stdlib/strutil.StrListContains"] = &model{doc: "membership of the string in the list", fn: simple(func(r *FnRun, st *State, instr ssa.Instruction, args []*V) *V {
		l, x := args[0], args[1]
		q := mangle("q:i")
		el := sSel(sSel(st.comp("elem:string", 2, "Int"), l.Arr), st.ixTerm(l.Off, q))
		return vBool("(exists ((" + q + " Int)) (and (<= 0 " + q + ") (< " + q + " " + l.Len + ") (= " + el + " " + x.S + ")))")
	})}
}

// ---- container/list as a ghost sequence: seq[l][i] is the i-th element, idx[e] its position, in[e] its list ----
func init() {
	get := func(st *State, leaf, idx string) string { return sSel(st.comp(leaf, 1, "Int"), idx) }
	set := func(st *State, leaf, idx, v string) { st.writeLeaf(leaf, []string{idx}, "Int", v) }
	at := func(st *State, l, i string) string { return selN(st.comp("list#seq", 2, "Int"), []string{l, i}) }
	fams := []string{"list", "listel", "list.Element.Value"}
	extModels["container/list.New"] = &model{doc: "fresh empty list", fams: fams, fn: simple(func(r *FnRun, st *State, instr ssa.Instruction, args []*V) *V {
		l := st.allocRef()
		set(st, "list#len", l, "0")
		// nothing belongs to a list that has just been created
		in := st.comp("listel#in", 1, "Int")
		st.assume("(forall ((x Int)) (! (not (= (select " + in + " x) " + l + ")) :pattern ((select " + in + " x))))")
		return vInt(l, resType(instr))
	})}
	extModels["(*container/list.List).Len"] = &model{doc: "ghost length", fn: simple(func(r *FnRun, st *State, instr ssa.Instruction, args []*V) *V {
		return vInt(get(st, "list#len", args[0].S), resType(instr))
	})}
	extModels["(*container/list.List).Front"] = &model{doc: "first element of the sequence, or nil", fn: simple(func(r *FnRun, st *State, instr ssa.Instruction, args []*V) *V {
		l := args[0].S
		return st.nameV("front", vInt(sIte("(> "+get(st, "list#len", l)+" 0)", at(st, l, "0"), "0"), resType(instr)))
	})}
	extModels["(*container/list.Element).Next"] = &model{doc: "successor in the sequence; nil for the last element and for an element that has been removed from its list", fn: simple(func(r *FnRun, st *State, instr ssa.Instruction, args []*V) *V {
		e := args[0].S
		l := get(st, "listel#in", e)
		nxt := "(+ " + get(st, "listel#idx", e) + " 1)"
		return st.nameV("next", vInt(sIte(sOr(sEq(l, "0"), "(>= "+nxt+" "+get(st, "list#len", l)+")"), "0", at(st, l, nxt)), resType(instr)))
	})}
	extModels["(*container/list.List).PushBack"] = &model{doc: "appends a fresh element holding the value", fams: fams, fn: simple(func(r *FnRun, st *State, instr ssa.Instruction, args []*V) *V {
		l, v := args[0].S, args[1]
		e := st.allocRef()
		st.writeLeaf("list.Element.Value#tag", []string{e}, "Int", v.Tag)
		st.writeLeaf("list.Element.Value#val", []string{e}, "Int", v.Val)
		n := st.nameV("len", vInt(get(st, "list#len", l), nil)).S
		set(st, "listel#in", e, l)
		set(st, "listel#idx", e, n)
		st.writeLeaf("list#seq", []string{l, n}, "Int", e)
		set(st, "list#len", l, "(+ "+n+" 1)")
		return vInt(e, resType(instr))
	})}
	extModels["(*container/list.List).Remove"] = &model{doc: "removes the element from the sequence if it belongs to the list (later elements move up); the element no longer belongs to any list, so Next() on it yields nil", fams: fams, fn: simple(func(r *FnRun, st *State, instr ssa.Instruction, args []*V) *V {
		l, e := args[0].S, args[1].S
		in := st.nameV("in", vBool(sEq(get(st, "listel#in", e), l))).S
		i := st.nameV("ri", vInt(get(st, "listel#idx", e), nil)).S
		oldSeq := sSel(st.comp("list#seq", 2, "Int"), l)
		oldIdx := st.comp("listel#idx", 1, "Int")
		oldIn := st.comp("listel#in", 1, "Int")
		row := r.fresh("seqrow", "(Array Int Int)")
		j := mangle("q:j")
		st.assume("(forall ((" + j + " Int)) (! (= (select " + row + " " + j + ") (ite (and " + in + " (>= " + j + " " + i + ")) (select " + oldSeq + " (+ " + j + " 1)) (select " + oldSeq + " " + j + "))) :pattern ((select " + row + " " + j + "))))")
		r.setRow(st, "list#seq", "Int", l, row)
		st.havocLeaf("listel#idx")
		nIdx := st.comp("listel#idx", 1, "Int")
		x := mangle("q:x")
		st.assume("(forall ((" + x + " Int)) (! (= (select " + nIdx + " " + x + ") (ite (and " + in + " (= (select " + oldIn + " " + x + ") " + l + ") (> (select " + oldIdx + " " + x + ") " + i + ")) (- (select " + oldIdx + " " + x + ") 1) (select " + oldIdx + " " + x + "))) :pattern ((select " + nIdx + " " + x + "))))")
		set(st, "list#len", l, sIte(in, "(- "+get(st, "list#len", l)+" 1)", get(st, "list#len", l)))
		set(st, "listel#in", e, sIte(in, "0", get(st, "listel#in", e)))
		anyT := types.NewInterfaceType(nil, nil)
		return &V{K: KIface, T: anyT, Tag: sSel(st.comp("list.Element.Value#tag", 1, "Int"), e), Val: sSel(st.comp("list.Element.Value#val", 1, "Int"), e)}
	})}
}

// ---- strings.Split and reflect (abstract observers) ----
func init() {
	extModels["strings.Split"] = &model{doc: "fresh slice of at least one segment; segment i is uf(strings.Split, s, sep, i), their number uf(strings.SplitN, s, sep)", fams: []string{"elem:string"}, fn: simple(func(r *FnRun, st *State, instr ssa.Instruction, args []*V) *V {
		arr := st.allocRef()
		r.eng.declare("(declare-fun |uf:strings.Split| (Int Int Int) Int)")
		r.eng.declare("(declare-fun |uf:strings.SplitN| (Int Int) Int)")
		n := "(|uf:strings.SplitN| " + args[0].S + " " + args[1].S + ")"
		st.assume("(>= " + n + " 1)")
		row := r.fresh("splitrow", "(Array Int Int)")
		i := mangle("q:i")
		st.assume("(forall ((" + i + " Int)) (! (= (select " + row + " " + i + ") (|uf:strings.Split| " + args[0].S + " " + args[1].S + " " + i + ")) :pattern ((select " + row + " " + i + "))))")
		r.setRow(st, "elem:string", "Int", arr, row)
		return &V{K: KSlice, T: resType(instr), Arr: arr, Off: "0", Len: n, Cap: n}
	})}
	// reflect: a reflect.Value is an abstract integer; observers are uninterpreted functions of it
	rv := func(name string) *model {
		return &model{doc: "uninterpreted observer of the reflect.Value", fn: simple(func(r *FnRun, st *State, instr ssa.Instruction, args []*V) *V {
			rt := resType(instr)
			var ts, sorts []string
			for _, a := range args {
				for _, l := range leavesSorted(a) {
					ts = append(ts, l[0])
					sorts = append(sorts, l[1])
				}
			}
			fn := mangle("uf:reflect." + name)
			switch r.eng.shape(rt) {
			case KBool:
				r.eng.declare("(declare-fun " + fn + " (" + strings.Join(sorts, " ") + ") Bool)")
				return &V{K: KBool, T: rt, S: sApp(fn, ts...)}
			case KIface:
				// reflect.Type results: an interface whose value part identifies the type
				r.eng.declare("(declare-fun " + fn + " (" + strings.Join(sorts, " ") + ") Int)")
				return &V{K: KIface, T: rt, Tag: r.eng.typeIDByName("reflect.rtype"), Val: sApp(fn, ts...)}
			case KSlice:
				r.eng.declare("(declare-fun " + fn + " (" + strings.Join(sorts, " ") + ") Int)")
				r.eng.declare("(declare-fun |uf:reflect.len| (Int) Int)")
				a := sApp(fn, ts...)
				ln := "(|uf:reflect.len| " + a + ")"
				st.assume("(>= " + ln + " 0)")
				return &V{K: KSlice, T: rt, Arr: a, Off: "0", Len: ln, Cap: ln}
			default:
				r.eng.declare("(declare-fun " + fn + " (" + strings.Join(sorts, " ") + ") Int)")
				v := vInt(sApp(fn, ts...), rt)
				if name == "Len" {
					st.assume("(>= " + v.S + " 0)")
				}
				return v
			}
		})}
	}
	for _, m := range []string{"Kind", "Elem", "CanSet", "IsNil", "String", "Bytes", "Len", "IsValid", "CanInterface", "IsZero"} {
		extModels["(reflect.Value)."+m] = rv(m)
	}
	extModels["(reflect.Value).Index"] = rv("Index")
	extModels["(reflect.Value).Pointer"] = rv("Pointer")
	extModels["(reflect.Value).FieldByName"] = rv("FieldByName")
	extModels["(reflect.Value).Field"] = rv("Field")
	extModels["(reflect.Value).NumField"] = rv("NumField")
	extModels["(reflect.Value).MapIndex"] = rv("MapIndex")
	extModels["(reflect.Value).Interface"] = &model{doc: "the value as an interface: dynamic type uf(reflect.Type, v), value part uf(reflect.Interface, v)", fn: simple(func(r *FnRun, st *State, instr ssa.Instruction, args []*V) *V {
		r.eng.declare("(declare-fun |uf:reflect.Type| (Int) Int)")
		r.eng.declare("(declare-fun |uf:reflect.Interface| (Int) Int)")
		return &V{K: KIface, T: resType(instr), Tag: "(|uf:reflect.Type| " + args[0].S + ")", Val: "(|uf:reflect.Interface| " + args[0].S + ")"}
	})}
	extModels["(reflect.Value).Type"] = rv("Type")
	extModels["reflect.ValueOf"] = rv("ValueOf")
	extModels["reflect.Indirect"] = rv("Indirect")
	extModels["reflect.TypeOf"] = &model{doc: "the dynamic type of the argument, as a reflect.Type whose identity is the type tag", fn: simple(func(r *FnRun, st *State, instr ssa.Instruction, args []*V) *V {
		r.eng.declare("(declare-fun |uf:reflect.Type| (Int) Int)")
		return &V{K: KIface, T: resType(instr), Tag: sIte(sEq(args[0].Tag, "0"), "0", r.eng.typeIDByName("reflect.rtype")), Val: sIte(sEq(args[0].Tag, "0"), "0", args[0].Tag)}
	})}
	setter := func(name string) *model {
		return &model{doc: "mutation through reflection: trace event reflect:set a0=target value a1=new data", emits: true, fn: simple(func(r *FnRun, st *State, instr ssa.Instruction, args []*V) *V {
			data := identityLeaves(args[1])[0]
			if args[1].K == KSlice {
				// bytes converted from a string: record the string it came from
				r.eng.declare("(declare-fun bytes2str (Int Int Int) Int)")
				data = "(bytes2str " + args[1].Arr + " " + args[1].Off + " " + args[1].Len + ")"
			}
			st.emit("reflect:set", args[0].S, data)
			return unit()
		})}
	}
	extModels["(reflect.Value).SetString"] = setter("SetString")
	extModels["(reflect.Value).SetBytes"] = setter("SetBytes")
}
