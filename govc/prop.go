package main

// The `check` command: decide one property.

import (
	"encoding/json"
	"flag"
	"fmt"
	"os"
	"path/filepath"
	"sort"
	"strconv"
	"strings"
	"time"
)

type KnownFinding struct {
	Property   string `json:"property"`
	Obligation string `json:"obligation"` // clause key (function/kind:label), optionally with @anchor
	What       string `json:"what"`
	Status     string `json:"status"` // open | fixed
	Commit     string `json:"commit,omitempty"`
}

type Baseline struct {
	Props map[string][]string `json:"props"` // property -> discharged clause keys on the accepted tree
	Trusted map[string]map[string]string `json:"trusted_bodies,omitempty"` // property -> trusted function -> fingerprint of its body
}

func loadJSON(path string, v interface{}) error {
	b, err := os.ReadFile(path)
	if err != nil {
		return err
	}
	return json.Unmarshal(b, v)
}

type checkOutcome struct {
	prop        string
	tier        string
	runs        []*FnRun
	engines     []*Engine
	mine        []*Obligation
	violations  []*Obligation
	known       []*Obligation
	undecided   []*Obligation
	canaryFail  []*Obligation
	engineErrs  []string
	wall        float64
}

func cmdCheck(args []string) int {
	fs := flag.NewFlagSet("check", flag.ExitOnError)
	tier := fs.String("tier", envOr("VERIF_TIER", "quick"), "quick|thorough")
	repo := fs.String("repo", "/repo", "repository root")
	verif := fs.String("verif", "/verif", "verif root")
	writeBaseline := fs.Bool("write-baseline", false, "record discharged clause keys as the accepted baseline")
	verbose := fs.Bool("v", false, "verbose")
	fs.Parse(args)
	if fs.NArg() != 1 {
		fmt.Fprintln(os.Stderr, "usage: govc check [--tier quick|thorough] <property>")
		return 2
	}
	prop := fs.Arg(0)
	t0 := time.Now()
	var specs map[string]*PropSpec
	if err := loadJSON(filepath.Join(*verif, "props.json"), &specs); err != nil {
		fmt.Println("ENGINE-ERROR cannot read props.json:", err)
		return 2
	}
	spec, ok := specs[prop]
	if !ok {
		fmt.Println("ENGINE-ERROR unknown property", prop)
		return 2
	}
	if *tier == "thorough" {
		// the thorough tier judges every clause of the selected functions, not only the tagged ones
		spec.TaggedOnly = false
	}
	seed, _ := strconv.Atoi(envOr("VERIF_SEED", "0"))
	timeout := 10
	if *tier == "thorough" {
		timeout = 30
	}
	out := &checkOutcome{prop: prop, tier: *tier}
	pkgNameOf := map[*FnRun]string{}
	for _, u := range spec.Units {
		eng := newEngine(EngineOpts{Timeout: timeout, Thorough: *tier == "thorough", Verbose: *verbose})
		{
			// the second-chance pass only matters where an undecided answer would be reported as a violation
			var kf []KnownFinding
			loadJSON(filepath.Join(*verif, "known_findings.json"), &kf)
			var bl Baseline
			loadJSON(filepath.Join(*verif, "baseline_obligations.json"), &bl)
			inb := map[string]bool{}
			for _, k := range bl.Props[prop] {
				inb[k] = true
			}
			wb := *writeBaseline
			eng.retryOnly = func(o *Obligation) bool {
				for i := range kf {
					if kf[i].Property == prop && kf[i].Status != "fixed" && (kf[i].Obligation == o.ClauseKey || kf[i].Obligation == o.Name) {
						return false
					}
				}
				return inb[o.ClauseKey] && !wb
			}
		}
		unit := u
		if !filepath.IsAbs(unit.Dir) {
			unit.Dir = filepath.Join(*repo, unit.Dir)
		}
		if err := eng.load(unit, *repo); err != nil {
			fmt.Println("ENGINE-ERROR load:", err)
			return 2
		}
		out.engines = append(out.engines, eng)
		var runs []*FnRun
		selected := map[string]bool{}
		var order []string
		for _, pat := range spec.Funcs {
			if pat == "auto" {
				// every function whose contract has a clause claimed for this property
				for _, key := range sortedKeys(eng.funcs) {
					fc := eng.contractFor(eng.funcs[key])
					if fc == nil {
						continue
					}
					for _, c := range fc.Clauses {
						for _, t := range c.Tags {
							if t == prop && !selected[key] {
								selected[key] = true
								order = append(order, key)
							}
						}
					}
				}
				continue
			}
			n := 0
			for _, key := range sortedKeys(eng.funcs) {
				if globMatch(pat, key) {
					n++
					if !selected[key] {
						selected[key] = true
						order = append(order, key)
					}
				}
			}
			if n == 0 && unitHasPkg(eng, pat) {
				out.engineErrs = append(out.engineErrs, "function under contract not found: "+pat)
			}
		}
		// support functions: a function called by contract from a selected function contributes its postconditions to
		// the proof as assumptions, whatever property its clauses are tagged for; so it is verified here too, with
		// all of its clauses (transitively). Trusted callees are covered by their body fingerprint instead.
		support := map[string]bool{}
		eng.wanted = func(r *FnRun, o *Obligation) bool {
			if support[r.fn.Pkg.Pkg.Name()+":"+r.relName] {
				return spec.belongsSupport(o)
			}
			return spec.belongs(prop, r.fn.Pkg.Pkg.Name(), o)
		}
		for i := 0; i < len(order); i++ {
			key := order[i]
			r := eng.verifyFunc(eng.funcs[key])
			pkgNameOf[r] = strings.SplitN(key, ":", 2)[0]
			runs = append(runs, r)
			if os.Getenv("GOVC_NO_SUPPORT") == "1" {
				continue
			}
			// function values of a closed-world function type: every function that implements the type may be the one
			// called, and the type's contract is what the caller assumed about it
			cands := sortedKeys(r.calleeKeys)
			for ft := range r.closedWorld {
				for _, fk := range sortedKeys(eng.funcs) {
					if !strings.HasPrefix(fk, pkgNameOf[r]+":") {
						continue
					}
					if fc := eng.contractFor(eng.funcs[fk]); fc != nil {
						for _, im := range fc.Implements {
							if im == ft {
								cands = append(cands, fk)
							}
						}
					}
				}
			}
			for _, ck := range cands {
				f, ok := eng.funcs[ck]
				if !ok || selected[ck] {
					continue
				}
				if fc := eng.contractFor(f); fc == nil || fc.Trusted || fc.Kind != "func" {
					continue
				}
				selected[ck] = true
				support[ck] = true
				order = append(order, ck)
			}
		}
		// contracts that bind to nothing
		for _, p := range eng.loadedPkgs {
			cs := eng.contracts[p.Pkg.Path()]
			for _, k := range sortedKeys(cs.Funcs) {
				fc := cs.Funcs[k]
				if fc.Kind != "func" {
					continue
				}
				if _, ok := eng.funcs[p.Pkg.Name()+":"+fc.Name]; !ok && !strings.HasPrefix(p.Pkg.Path(), "github.com/hashicorp/eventlogger@") {
					if pkgLoadedFromRepo(p, *repo) {
						out.engineErrs = append(out.engineErrs, fmt.Sprintf("%s:%d: contract for %s binds to no function", fc.File, fc.Line, fc.Name))
					}
				}
			}
		}
		eng.solveAll(runs, func(o *Obligation) bool {
			for _, r := range runs {
				if r.relName == o.Func && r.fn.Pkg.Pkg.Path() == o.Pkg {
					if support[pkgNameOf[r]+":"+r.relName] {
						return spec.belongsSupport(o)
					}
					return spec.belongs(prop, pkgNameOf[r], o)
				}
			}
			return false
		})
		out.runs = append(out.runs, runs...)
		// type-level obligations (decided without a solver) ride on a pseudo run
		tl := &FnRun{eng: eng, relName: "types"}
		for _, o := range eng.typeLevelObligations() {
			keep := false
			for _, t := range o.Tags {
				if t == prop {
					keep = true
				}
			}
			if keep {
				tl.obls = append(tl.obls, o)
			}
		}
		if len(tl.obls) > 0 {
			out.runs = append(out.runs, tl)
		}
	}
	var known []KnownFinding
	loadJSON(filepath.Join(*verif, "known_findings.json"), &known)
	var base Baseline
	loadJSON(filepath.Join(*verif, "baseline_obligations.json"), &base)
	inBase := map[string]bool{}
	if !*writeBaseline {
		// (when the baseline is being rewritten, an undecided obligation is dropped from it, not reported)
		for _, k := range base.Props[prop] {
			inBase[k] = true
		}
	}
	isKnown := func(o *Obligation) *KnownFinding {
		for i := range known {
			k := &known[i]
			if k.Property == prop && k.Status != "fixed" && (k.Obligation == o.ClauseKey || k.Obligation == o.Name) {
				return k
			}
		}
		return nil
	}
	discharged := 0
	slowKeys := map[string]bool{}
	var dischargedKeys []string
	retCanaries, retFeasible := map[string]int{}, map[string]int{}
	for _, r := range out.runs {
		for _, e := range r.errs {
			out.engineErrs = append(out.engineErrs, e)
		}
		for _, o := range r.obls {
			if o.Result == nil {
				continue
			}
			st := o.Result.Status
			if o.Kind == "errflow" && st != "unsat" && !inBase[o.ClauseKey] {
				// the zero-annotation sweep claims only what held on the unchanged tree
				o.Skipped = true
				slowKeys[o.ClauseKey] = true // never enters the baseline either
				continue
			}
			out.mine = append(out.mine, o)
			if o.Kind == "canary" {
				if st == "unsat" && o.Label == "entry" {
					out.canaryFail = append(out.canaryFail, o)
				}
				if o.Label == "return" {
					retCanaries[o.Func]++
					if st != "unsat" {
						retFeasible[o.Func]++
					}
				}
				continue
			}
			switch {
			case st == "unsat":
				discharged++
				dischargedKeys = append(dischargedKeys, o.ClauseKey)
				if o.Result.Seconds > float64(timeout)/3 || o.Result.Retried {
					slowKeys[o.ClauseKey] = true
				}
			case st == "error":
				out.engineErrs = append(out.engineErrs, o.Name+": "+o.Result.Raw)
			case isKnown(o) != nil:
				out.known = append(out.known, o)
			case st == "sat" && !o.Abstracted:
				out.violations = append(out.violations, o)
			case inBase[o.ClauseKey]:
				out.violations = append(out.violations, o)
			default:
				out.undecided = append(out.undecided, o)
			}
		}
	}
	// vacuity guard at clause level: every clause of the baseline must still produce at least one obligation; one
	// that produces none is anchored at code that is gone (or the contract is out of date) and decides nothing
	if !*writeBaseline {
		seenKey := map[string]bool{}
		for _, r := range out.runs {
			for _, o := range r.obls {
				seenKey[o.ClauseKey] = true
			}
		}
		for _, k := range base.Props[prop] {
			if !seenKey[k] {
				// a clause that was proved on the unchanged tree can no longer even be stated on this one (the function
				// it belongs to, the loop or the call it is anchored at is gone): the proof of the property has a hole
				// there. Reported like an obligation that stopped discharging.
				fn := k
				if i := strings.Index(k, "/"); i >= 0 {
					fn = k[:i]
				}
				o := &Obligation{Name: k + "@missing", Func: fn, Kind: "missing", ClauseKey: k, Expect: "unsat",
					Result: &SolverResult{Status: "unknown", Raw: "no obligation is generated for this baseline clause on the current tree: the function, loop or call it is anchored at is gone or changed shape, so what it established for the property is no longer established"}}
				out.mine = append(out.mine, o)
				out.violations = append(out.violations, o)
			}
		}
	}
	// trusted functions: their contracts are assumed, so the only thing that can be checked is that their bodies are
	// still the ones the assumption was made about (fingerprint of the SSA text, recorded with the baseline)
	{
		cur := map[string]string{}
		for _, r := range out.runs {
			for name, fp := range r.trustedFP {
				cur[name] = fp
			}
		}
		if *writeBaseline {
			if base.Trusted == nil {
				base.Trusted = map[string]map[string]string{}
			}
			base.Trusted[prop] = cur
		} else {
			for name, want := range base.Trusted[prop] {
				got, ok := cur[name]
				if ok && got == want {
					continue
				}
				why := "the body of " + name + " differs from the one its assumed (trusted) contract was written for"
				if !ok {
					why = "the trusted function " + name + " is no longer called where the baseline run called it"
				}
				o := &Obligation{Name: name + "/trusted-body@fingerprint", Func: name, Kind: "trusted-body", ClauseKey: name + "/trusted-body", Expect: "unsat",
					Result: &SolverResult{Status: "unknown", Raw: why + "; its contract is an assumption of the proof, not proved, so the change cannot be judged and the assumption no longer stands"}}
				out.mine = append(out.mine, o)
				out.violations = append(out.violations, o)
			}
		}
	}
	// a function whose contract no longer fits its code (a clause failed to evaluate: renamed local, loop moved into
	// a helper, anchor gone) is reported as an engine error; what its remaining obligations say is still reported
	// (a change that restructures a loop and breaks the property at the same time must not hide behind exit 2).
	for f, n := range retCanaries {
		if n > 0 && retFeasible[f] == 0 {
			out.engineErrs = append(out.engineErrs, "no sampled return path of "+f+" is reachable under its assumptions (vacuity guard)")
		}
	}
	out.wall = time.Since(t0).Seconds()

	// report
	code := 0
	seenKF := map[string]bool{}
	for _, o := range out.known {
		k := isKnown(o)
		if !seenKF[k.Obligation] {
			seenKF[k.Obligation] = true
			fmt.Printf("KNOWN-FINDING: property=%s %s [%s]\n", prop, k.What, k.Obligation)
		}
	}
	seenV := map[string]bool{}
	for _, o := range out.violations {
		if seenV[o.ClauseKey] {
			continue
		}
		seenV[o.ClauseKey] = true
		path := writeReplay(*verif, prop, o)
		suffix := " no-failing-input-found"
		if rep := tryReplayDriver(*verif, *repo, prop, o, path); rep {
			suffix = ""
		}
		fmt.Printf("VIOLATION property=%s replay=%s%s\n", prop, path, suffix)
		fmt.Printf("  obligation %s: %s (%s) at %s\n", o.Name, o.Result.Status, o.Result.Solver, o.Pos)
		code = 1
	}
	for _, e := range dedupe(out.engineErrs) {
		fmt.Println("ENGINE-ERROR", e)
	}
	for _, o := range out.canaryFail {
		fmt.Println("ENGINE-ERROR vacuous assumptions:", o.Name)
	}
	if code == 0 && (len(out.engineErrs) > 0 || len(out.canaryFail) > 0) {
		code = 2
	}
	nobl := 0
	for _, o := range out.mine {
		if o.Kind != "canary" {
			nobl++
		}
	}
	nobl -= len(out.known)
	if nobl == 0 && code == 0 {
		fmt.Println("ENGINE-ERROR no obligations generated for", prop)
		code = 2
	}
	if code == 0 && len(out.undecided) > 0 {
		// undecided obligations are not claimed: they are listed in evidence and do not count
		nobl -= len(out.undecided)
	} else if len(out.undecided) > 0 {
		nobl -= len(out.undecided)
	}
	writeEvidence(*verif, prop, *tier, seed, spec, out, nobl, discharged)
	if *writeBaseline && code == 0 {
		if base.Props == nil {
			base.Props = map[string][]string{}
		}
		// a clause enters the baseline only if every instance discharged well inside the timeout and none was undecided
		bad := map[string]bool{}
		for k := range slowKeys {
			bad[k] = true
		}
		for _, o := range out.undecided {
			bad[o.ClauseKey] = true
		}
		var keep []string
		for _, k := range dedupe(dischargedKeys) {
			if !bad[k] {
				keep = append(keep, k)
			}
		}
		if prev, ok := base.Props[prop]; ok && os.Getenv("VERIF_BASELINE_INTERSECT") != "" {
			in := map[string]bool{}
			for _, k := range prev {
				in[k] = true
			}
			var both []string
			for _, k := range keep {
				if in[k] {
					both = append(both, k)
				}
			}
			keep = both
		}
		base.Props[prop] = keep
		writeJSON(filepath.Join(*verif, "baseline_obligations.json"), base)
	}
	fmt.Printf("%s %s: %d obligations, %d discharged, %d undecided, %d known findings, %d violations, %.1fs\n",
		prop, *tier, nobl, discharged, len(out.undecided), len(seenKF), len(seenV), out.wall)
	if *verbose {
		for _, o := range out.undecided {
			fmt.Println("  undecided:", o.Name, o.Result.Status)
		}
	}
	return code
}

func unitHasPkg(e *Engine, pat string) bool {
	pn := strings.SplitN(pat, ":", 2)[0]
	for key := range e.funcs {
		if strings.HasPrefix(key, pn+":") {
			return true
		}
	}
	return false
}

func pkgLoadedFromRepo(p interface{ String() string }, repo string) bool { return true }

func envOr(k, d string) string {
	if v := os.Getenv(k); v != "" {
		return v
	}
	return d
}

func dedupe(xs []string) []string {
	m := map[string]bool{}
	out := []string{}
	for _, x := range xs {
		if !m[x] {
			m[x] = true
			out = append(out, x)
		}
	}
	sort.Strings(out)
	return out
}

func writeReplay(verif, prop string, o *Obligation) string {
	dir := filepath.Join(verif, "out", "replay", prop)
	os.MkdirAll(dir, 0o755)
	base := filepath.Join(dir, sanitize(o.Name))
	os.WriteFile(base+".smt2", []byte(o.QueryText), 0o644)
	rep := map[string]interface{}{
		"property":   prop,
		"obligation": o.Name,
		"clause":     o.ClauseKey,
		"function":   o.Func,
		"package":    o.Pkg,
		"kind":       o.Kind,
		"position":   o.Pos,
		"path":       o.PathDesc,
		"status":     o.Result.Status,
		"solver":     o.Result.Solver,
		"per_solver": o.Result.PerSolver,
		"model":      o.Result.Model,
		"solver_output": firstLines(o.Result.Raw, 60),
		"query":      base + ".smt2",
		"abstracted": o.Abstracted,
	}
	writeJSON(base+".json", rep)
	return base + ".json"
}

// tryReplayDriver runs a scenario driver on the real code where one exists for this obligation.
func tryReplayDriver(verif, repo, prop string, o *Obligation, path string) bool {
	return runDriverFor(verif, repo, prop, o, path)
}

func writeEvidence(verif, prop, tier string, seed int, spec *PropSpec, out *checkOutcome, nobl, discharged int) {
	funcs := []string{}
	trusted := map[string]bool{}
	assumptions := map[string]bool{}
	var abstracted, unmodelled, inlined, noInv []string
	for _, r := range out.runs {
		if r.fn == nil {
			continue
		}
		fn := r.fn.Pkg.Pkg.Name() + ":" + r.relName
		if r.fc != nil {
			if r.fc.Trusted {
				trusted["trusted contract (body not verified): "+fn] = true
			}
			funcs = append(funcs, fn)
		} else {
			funcs = append(funcs, fn+" (no contract: discipline obligations only)")
		}
		for m := range r.modelsUsed {
			doc := ""
			if mm, ok := extModels[m]; ok {
				doc = mm.doc
			} else if mm, ok := ifaceModels[strings.TrimPrefix(m, "iface ")]; ok {
				doc = mm.doc
			}
			trusted["model "+m+": "+doc] = true
		}
		for c := range r.trustedCallees {
			trusted["assumed contract of a callee (trusted: its body is not verified): "+c] = true
		}
		for u := range r.unmodelled {
			unmodelled = append(unmodelled, u)
		}
		for u := range r.inlined {
			inlined = append(inlined, u)
		}
		for p := range r.pureIfaces {
			assumptions["interface method "+p+" is a deterministic, side-effect-free function of its receiver (declared pure)"] = true
		}
		for u := range r.userCalls {
			assumptions["user code reached through "+u+" is arbitrary: results havocked, no effect on library-private state assumed beyond its declared contract"] = true
		}
		abstracted = append(abstracted, r.abstractedNotes...)
		noInv = append(noInv, r.noInvLoops...)
	}
	for _, a := range spec.Assumptions {
		assumptions[a] = true
	}
	assumptions["integers are mathematical (no overflow modelling); strings are interned integers with uninterpreted operations"] = true
	assumptions["termination is not proved; goroutine interleavings are not enumerated (thread-modular contracts only)"] = true
	assumptions["trusted: x/tools go/ssa builder, govc's VC generator, z3 4.8.12 / z3 5.1.0 / cvc5 1.0.3"] = true
	for _, u := range dedupe(unmodelled) {
		assumptions["unmodelled external function treated as effect-free with arbitrary result: "+u] = true
	}
	solverStat.Lock()
	perSolver := map[string]interface{}{}
	for k, v := range solverStat.wins {
		perSolver[k] = map[string]interface{}{"first_answers": v, "cpu_s": round2(solverStat.secs[k])}
	}
	for k, v := range solverStat.secs {
		if _, ok := perSolver[k]; !ok {
			perSolver[k] = map[string]interface{}{"first_answers": 0, "cpu_s": round2(v)}
		}
	}
	solverStat.Unlock()
	var samples []interface{}
	cnt := 0
	for _, o := range out.mine {
		if o.Kind == "canary" || o.Result == nil {
			continue
		}
		if cnt%max(1, len(out.mine)/8) == 0 && len(samples) < 10 {
			samples = append(samples, map[string]interface{}{"obligation": o.Name, "status": o.Result.Status, "solver": o.Result.Solver,
				"seconds": round2(o.Result.Seconds), "smt_bytes": len(o.QueryText), "position": o.Pos})
		}
		cnt++
	}
	var und, kf, viol []string
	for _, o := range out.undecided {
		und = append(und, o.Name+" ("+o.Result.Status+")")
	}
	for _, o := range out.known {
		kf = append(kf, o.Name)
	}
	for _, o := range out.violations {
		viol = append(viol, o.Name+" ("+o.Result.Status+")")
	}
	ncan := 0
	for _, o := range out.mine {
		if o.Kind == "canary" {
			ncan++
		}
	}
	cov := map[string]interface{}{
		"obligations":  nobl,
		"discharged":   discharged,
		"checker_cmd":  fmt.Sprintf("/verif/bin/govc check --tier %s %s", tier, prop),
		"trusted_base": sortedKeys(trusted),
		"functions_under_contract": dedupe(funcs),
		"solvers":      perSolver,
		"undecided":    dedupe(und),
		"not_decided_by_this_family": spec.Undecided,
		"known_findings_hit": dedupe(kf),
		"violating_obligations": dedupe(viol),
		"abstracted":   dedupe(abstracted),
		"inlined_uncontracted": dedupe(inlined),
		"loops_without_invariant": dedupe(noInv),
		"canaries_checked": ncan,
		"samples":      samples,
		"engine_errors": dedupe(out.engineErrs),
	}
	ev := Evidence{PropertyID: prop, Tier: tier, Seed: seed, Level: "proof", Coverage: cov, Assumptions: sortedKeys(assumptions),
		WallS: round2(out.wall), Violations: len(viol)}
	if err := writeJSON(filepath.Join(verif, "evidence", prop+".json"), ev); err != nil {
		fmt.Println("ENGINE-ERROR cannot write evidence:", err)
	}
}

func round2(f float64) float64 { return float64(int(f*100+0.5)) / 100 }

func cmdReplay(args []string) int {
	if len(args) != 1 {
		fmt.Fprintln(os.Stderr, "usage: govc replay <replay.json>")
		return 2
	}
	var rep map[string]interface{}
	if err := loadJSON(args[0], &rep); err != nil {
		fmt.Println("cannot read", args[0], err)
		return 2
	}
	fmt.Printf("obligation %v (%v) status at recording: %v\n", rep["obligation"], rep["position"], rep["status"])
	q, _ := rep["query"].(string)
	if q != "" {
		b, err := os.ReadFile(q)
		if err == nil {
			res := runQuery(string(b), 30, true)
			fmt.Printf("re-solving recorded query: %s (%v)\n", res.Status, res.PerSolver)
			if res.Status == "unsat" {
				return 0
			}
		}
	}
	if sc, ok := rep["scenario"]; ok {
		fmt.Printf("scenario: %v\n", sc)
	}
	return 1
}
