package main

// Loading, per-function verification driver, solving, property verdicts, evidence.

import (
	"encoding/json"
	"fmt"
	"go/types"
	"os"
	"path/filepath"
	"regexp"
	"sort"
	"strings"
	"sync"
	"time"

	"golang.org/x/tools/go/packages"
	"golang.org/x/tools/go/ssa"
	"golang.org/x/tools/go/ssa/ssautil"
)

const repoModulePrefix = "github.com/hashicorp/eventlogger"

type Unit struct {
	Dir  string   `json:"dir"`
	Pkgs []string `json:"pkgs"`
}

type Selector struct {
	Func  string `json:"func"`
	Kind  string `json:"kind"`
	Label string `json:"label"`
}

type PropSpec struct {
	Units   []Unit     `json:"units"`
	Funcs   []string   `json:"funcs"` // "pkgname:relname" globs
	Kinds   []string   `json:"kinds"` // extra discipline kinds claimed (guarded, lock, callback-free, immutable, blocking)
	Exclude []Selector `json:"exclude"`
	TaggedOnly bool    `json:"tagged_only"` // untagged clauses of the selected functions are not claimed (discipline kinds and tagged clauses only)
	Assumptions []string `json:"assumptions"`
	Undecided   []string `json:"undecided"`
}

func newEngine(opts EngineOpts) *Engine {
	return &Engine{repoPkgs: map[string]bool{}, contracts: map[string]*ContractSet{}, funcs: map[string]*ssa.Function{},
		strIDs: map[string]int{}, typeIDs: map[string]int{}, preSet: map[string]bool{}, compSort: map[string]string{},
		faIDs: map[string]int{}, ifaceFacts: map[string]bool{}, opts: opts}
}

func goEnv() []string {
	env := os.Environ()
	env = append(env, "GOFLAGS=-mod=mod", "GOPROXY=off", "GOSUMDB=off", "GOTOOLCHAIN=local")
	return env
}

func (e *Engine) load(u Unit, repoRoot string) error {
	cfg := &packages.Config{Mode: packages.LoadAllSyntax, Dir: u.Dir, BuildFlags: []string{"-tags=verif"}, Env: goEnv()}
	pkgs, err := packages.Load(cfg, u.Pkgs...)
	if err != nil {
		return err
	}
	var errs []string
	inTree := map[string]bool{}
	packages.Visit(pkgs, nil, func(p *packages.Package) {
		for _, f := range p.GoFiles {
			if strings.HasPrefix(f, repoRoot+"/") {
				inTree[p.PkgPath] = true
			}
		}
		for _, er := range p.Errors {
			if strings.HasPrefix(p.PkgPath, repoModulePrefix) {
				errs = append(errs, er.Error())
			}
		}
	})
	if len(errs) > 0 {
		return fmt.Errorf("package errors: %s", strings.Join(errs, "; "))
	}
	prog, _ := ssautil.AllPackages(pkgs, ssa.NaiveForm|ssa.InstantiateGenerics)
	prog.Build()
	e.prog = prog
	for _, p := range prog.AllPackages() {
		if p.Pkg.Path() == repoModulePrefix || strings.HasPrefix(p.Pkg.Path(), repoModulePrefix+"/") {
			e.repoPkgs[p.Pkg.Path()] = true
			e.loadedPkgs = append(e.loadedPkgs, p)
		}
	}
	sort.Slice(e.loadedPkgs, func(i, j int) bool { return e.loadedPkgs[i].Pkg.Path() < e.loadedPkgs[j].Pkg.Path() })
	// contracts: verif_contracts.go in the package's directory inside the repository working tree
	for _, p := range e.loadedPkgs {
		rel := strings.TrimPrefix(strings.TrimPrefix(p.Pkg.Path(), repoModulePrefix), "/")
		file := filepath.Join(repoRoot, rel, "verif_contracts.go")
		cs := newContractSet()
		cs.Pkg = p.Pkg.Path()
		// a package of the repository's module path that was resolved from the module cache (a nested module
		// depending on a released version of the root module) is not the working tree: its functions carry no contracts
		if _, err := os.Stat(file); err == nil && inTree[p.Pkg.Path()] {
			if err := cs.parseFile(file); err != nil {
				return err
			}
		}
		e.contracts[p.Pkg.Path()] = cs
	}
	// function index (functions of the working tree only: a released copy of the root module that a nested module
	// depends on is never a verification target)
	for _, p := range e.loadedPkgs {
		if !inTree[p.Pkg.Path()] {
			continue
		}
		for _, m := range p.Members {
			switch x := m.(type) {
			case *ssa.Function:
				e.indexFunc(p, x)
			case *ssa.Type:
				for _, t := range []types.Type{x.Type(), types.NewPointer(x.Type())} {
					ms := prog.MethodSets.MethodSet(t)
					for i := 0; i < ms.Len(); i++ {
						if f := prog.MethodValue(ms.At(i)); f != nil && f.Synthetic == "" {
							e.indexFunc(p, f)
						}
					}
				}
			}
		}
	}
	e.declare("(declare-fun strlen (Int) Int)")
	e.declare("(assert (= (strlen 0) 0))")
	e.declare("(declare-fun objkind (Int) Int)")
	e.declare("(declare-fun objowner (Int) Int)")
	return nil
}

func (e *Engine) indexFunc(p *ssa.Package, f *ssa.Function) {
	if pkgOfFn(f) != p.Pkg {
		return
	}
	key := p.Pkg.Name() + ":" + e.relName(f)
	if _, ok := e.funcs[key]; ok {
		return
	}
	e.funcs[key] = f
	for _, a := range f.AnonFuncs {
		e.indexFunc(p, a)
	}
}

// ---- verifying one function ----

func (e *Engine) verifyFunc(f *ssa.Function) *FnRun {
	r := &FnRun{eng: e, fn: f, relName: e.relName(f), declSet: map[string]bool{}, loops: map[*ssa.Function]*loopInfo{},
		unmodelled: map[string]bool{}, inlined: map[string]bool{}, modelsUsed: map[string]bool{}, calleesByContract: map[string]bool{},
		pureIfaces: map[string]bool{}, userCalls: map[string]bool{}, spawned: map[string]bool{}, rootOf: map[string]string{}, closedWorld: map[string]bool{}}
	r.cs = e.contractSetFor(f)
	r.fc = e.contractFor(f)
	if r.cs == nil {
		r.cs = newContractSet()
	}
	if r.fc != nil && len(r.fc.Implements) > 0 && !r.fc.merged {
		r.fc.merged = true
		for _, ft := range r.fc.Implements {
			if tc := r.cs.Funcs["functype:"+ft]; tc != nil {
				// positional renaming of the functype's parameter/result names to this function's
				ren := map[string]string{}
				for i, n := range tc.Params {
					if i < len(r.fc.Params) {
						ren[n] = r.fc.Params[i]
					}
				}
				for i, n := range tc.Results {
					if i < len(r.fc.Results) {
						ren[n] = r.fc.Results[i]
					}
				}
				for _, c := range tc.Clauses {
					if c.Kind == "requires" || c.Kind == "ensures" {
						nc := *c
						nc.E = renameExpr(c.E, ren)
						if nc.Label == "" {
							nc.Label = fmt.Sprintf("%s.line%d", ft, c.Line)
						} else {
							nc.Label = ft + "." + nc.Label
						}
						r.fc.Clauses = append(r.fc.Clauses, &nc)
					}
				}
			} else {
				r.errs = append(r.errs, fmt.Sprintf("%s: implements unknown functype %s", r.relName, ft))
			}
		}
	}
	defer func() {
		if x := recover(); x != nil {
			if ee, ok := x.(evalError); ok {
				r.errs = append(r.errs, ee.msg)
				return
			}
			r.errs = append(r.errs, fmt.Sprintf("%s: internal error: %v", r.relName, x))
			if e.opts.Verbose {
				panic(x)
			}
		}
	}()
	if len(f.Blocks) == 0 {
		r.errs = append(r.errs, r.relName+": no body")
		return r
	}
	st := &State{run: r, regs: map[ssa.Value]*V{}, cells: map[*ssa.Alloc]*V{}, heap: map[string]string{}, ghost: map[string]string{},
		lets: map[string]*V{}, params: map[string]*V{}, callOrd: map[string]int{}, nonNil: map[string]bool{}, iterSeen: map[int]string{},
		guardSeen: map[string]bool{}, ghostParams: map[string]*V{}, wcache: map[string][]wentry{}, mapAx: map[string]bool{}, famEpoch: map[string]int{}, allocRefs: map[string]bool{}, deferStacks: [][]*deferRec{nil}}
	st.stack = []*ssa.Function{f}
	a0 := mangle("alloc@0")
	r.declare(a0, "Int")
	st.assume("(> " + a0 + " 0)")
	st.ghost["alloc"] = a0
	r.entryAlloc = a0
	n0 := mangle("ev.n@0")
	r.declare(n0, "Int")
	st.assume("(>= " + n0 + " 0)")
	st.ghost["ev.n"] = n0
	var args []*V
	for _, p := range f.Params {
		v := st.sym("p."+p.Name(), p.Type())
		st.regs[p] = v
		args = append(args, v)
	}
	for _, fv := range f.FreeVars {
		v := st.sym("fv."+fv.Name(), fv.Type())
		st.regs[fv] = v
		st.assume("(> " + v.S + " 0)")
	}
	vars := bindNames(r.fc, f, f.Signature, f.Signature.Recv() != nil, args)
	for _, fv := range f.FreeVars {
		// captured variables are visible in clauses by name, as their contents at entry
		vars[fv.Name()] = r.freeVarContent(st, fv, st.regs[fv])
	}
	st.ghostParams = map[string]*V{}
	if r.fc != nil {
		for _, gp := range r.fc.GhostParams {
			t := resolveTypeIn(f.Pkg.Pkg, gp.Type)
			if t == nil {
				r.errs = append(r.errs, fmt.Sprintf("%s: unknown ghostparam type %s", r.relName, gp.Type))
				continue
			}
			v := st.sym("ghost."+gp.Name, t)
			vars[gp.Name] = v
			st.ghostParams[gp.Name] = v
		}
	}
	st.params = vars
	// free variables are visible by name in clauses as their current contents (resolved through localByName)
	if r.fc != nil {
		for _, c := range r.fc.Clauses {
			if c.Kind == "safety" {
				r.safetyNil = true
			}
		}
		ctxVars := func() map[string]*V {
			m := map[string]*V{}
			for k, v := range vars {
				m[k] = v
			}
			return m
		}
		for _, c := range r.fc.Clauses {
			switch c.Kind {
			case "requires":
				ctx := &EvalCtx{run: r, st: st, vars: ctxVars(), fn: f, pkg: f.Pkg.Pkg, cs: r.cs, what: "requires of " + r.relName}
				t, err := safeBool(ctx, c.E, r.fc.File, c.Line)
				if err != nil {
					r.errs = append(r.errs, err.Error())
					continue
				}
				st.assume(t)
			case "let":
				ctx := &EvalCtx{run: r, st: st, vars: ctxVars(), fn: f, pkg: f.Pkg.Pkg, cs: r.cs, what: "let of " + r.relName}
				v, err := safeVal(ctx, c.E, r.fc.File, c.Line)
				if err != nil {
					r.errs = append(r.errs, err.Error())
					continue
				}
				st.lets[c.Name] = v
				vars[c.Name] = v
			}
		}
	}
	// package axioms (closed formulas over uninterpreted functions)
	for _, ax := range r.cs.Axioms {
		ctx := &EvalCtx{run: r, st: st, vars: map[string]*V{}, pkg: f.Pkg.Pkg, cs: r.cs, what: "axiom " + ax.Name}
		file := ""
		if len(r.cs.Files) > 0 {
			file = r.cs.Files[0]
		}
		t, err := safeBool(ctx, ax.E, file, ax.Line)
		if err != nil {
			r.errs = append(r.errs, err.Error())
			continue
		}
		st.assume(t)
		r.axiomsUsed = append(r.axiomsUsed, ax.Name)
	}
	r.entry = st.clone()
	// canary: the assumptions at entry must be satisfiable
	r.obls = append(r.obls, &Obligation{Name: r.relName + "/canary:entry", Func: r.relName, Pkg: f.Pkg.Pkg.Path(), Kind: "canary", Label: "entry",
		Query: &Query{Name: r.relName + "/canary:entry", Asserts: st.pcList(), Goal: "false"}, ClauseKey: r.relName + "/canary:entry", Expect: "sat"})
	top := &frame{fn: f, fc: r.fc, cs: r.cs, depth: 0, top: true}
	top.onReturn = func(s *State, res []*V) { r.checkReturn(s, top, res) }
	if r.fc != nil && r.fc.Trusted {
		r.noteTrustedBody(f.Pkg.Pkg.Name()+":"+r.relName, f)
		return r
	}
	r.exec(st, top, f.Blocks[0], 0)
	return r
}

func safeBool(ctx *EvalCtx, e *Expr, file string, line int) (t string, err error) {
	defer func() {
		if x := recover(); x != nil {
			if ee, ok := x.(evalError); ok {
				err = fmt.Errorf("%s:%d: %s", file, line, ee.msg)
				return
			}
			panic(x)
		}
	}()
	return ctx.boolOf(e), nil
}

func safeVal(ctx *EvalCtx, e *Expr, file string, line int) (v *V, err error) {
	defer func() {
		if x := recover(); x != nil {
			if ee, ok := x.(evalError); ok {
				err = fmt.Errorf("%s:%d: %s", file, line, ee.msg)
				return
			}
			panic(x)
		}
	}()
	return ctx.eval(e), nil
}

func (r *FnRun) checkReturn(st *State, fr *frame, res []*V) {
	r.returnsSeen++
	ord := r.returnsSeen
	if ord <= 8 {
		r.obls = append(r.obls, &Obligation{Name: fmt.Sprintf("%s/canary:return%d", r.relName, ord), Func: r.relName, Pkg: r.fn.Pkg.Pkg.Path(), Kind: "canary", Label: "return",
			Query: &Query{Asserts: st.pcList(), Goal: "false"}, ClauseKey: r.relName + "/canary:return", Expect: "sat", PathDesc: strings.Join(st.trail, " > ")})
	}
	r.errFlow(st, res, ord)
	if r.fc == nil {
		return
	}
	vars := map[string]*V{}
	for k, v := range st.params {
		vars[k] = v
	}
	bindResults(vars, r.fc, r.fn.Signature, res)
	for _, c := range r.fc.Clauses {
		if c.Kind != "ensures" {
			continue
		}
		ctx := &EvalCtx{run: r, st: st, old: r.entry, vars: vars, oldVars: st.params, pkg: r.fn.Pkg.Pkg, cs: r.cs, fn: nil, what: "ensures of " + r.relName}
		t, err := safeBool(ctx, c.E, r.fc.File, c.Line)
		if err != nil {
			r.errs = append(r.errs, err.Error())
			continue
		}
		r.oblige(st, "ensures", lbl(c, fmt.Sprintf("line%d", c.Line)), c.Tags, t, fmt.Sprintf("%s:%d", r.fc.File, c.Line), fmt.Sprintf("ret%d", ord))
	}
}

// ---- solving ----

func (e *Engine) solveAll(runs []*FnRun, keep func(*Obligation) bool) {
	e.finishIfaceFacts()
	type job struct {
		r *FnRun
		o *Obligation
	}
	var jobs []job
	for _, r := range runs {
		for _, o := range r.obls {
			if keep == nil || keep(o) {
				jobs = append(jobs, job{r, o})
			}
		}
	}
	ch := make(chan job)
	var wg sync.WaitGroup
	nw := 16
	for i := 0; i < nw; i++ {
		wg.Add(1)
		go func() {
			defer wg.Done()
			for j := range ch {
				q := *j.o.Query
				q.Decls = j.r.decls
				text := q.Text(e.prelude)
				j.o.QueryText = text
				if len(text) > 512*1024 {
					res := SolverResult{Status: "error", Raw: fmt.Sprintf("query too large: %d bytes", len(text))}
					j.o.Result = &res
					continue
				}
				to := e.opts.Timeout
				if j.o.Kind == "canary" {
					to = 3
				}
				res := runQuery(text, to, e.opts.Thorough && j.o.Kind != "canary")
				j.o.Result = &res
			}
		}()
	}
	for _, j := range jobs {
		ch <- j
	}
	close(ch)
	wg.Wait()
	// second chance for undecided obligations: the first pass runs 3 solvers x 16 workers on the machine, so a
	// borderline query can time out for lack of CPU alone; a few of them are re-run with little competition and
	// three times the budget. (A definite answer is never re-examined.)
	var again []job
	for _, j := range jobs {
		if j.o.Kind != "canary" && j.o.Result != nil && (j.o.Result.Status == "unknown" || j.o.Result.Status == "timeout") && (e.retryOnly == nil || e.retryOnly(j.o)) {
			again = append(again, j)
		}
	}
	if len(again) == 0 || len(again) > 24 || os.Getenv("GOVC_NO_RETRY") == "1" {
		return
	}
	ch2 := make(chan job)
	var wg2 sync.WaitGroup
	for i := 0; i < 4; i++ {
		wg2.Add(1)
		go func() {
			defer wg2.Done()
			for j := range ch2 {
				res := runQuery(j.o.QueryText, e.opts.Timeout*3, false)
				res.Retried = true
				j.o.Result = &res
			}
		}()
	}
	for _, j := range again {
		ch2 <- j
	}
	close(ch2)
	wg2.Wait()
}

// ---- property selection ----

func globMatch(pat, s string) bool {
	if pat == "" || pat == "*" {
		return true
	}
	re := "^" + strings.ReplaceAll(regexp.QuoteMeta(pat), `\*`, ".*") + "$"
	ok, _ := regexp.MatchString(re, s)
	return ok
}

// proofStructure: obligations the soundness of every later obligation of the function rests on (an invariant or cut
// assertion that is assumed afterwards, a callee precondition whose postcondition is assumed afterwards); claimed
// even where only tagged clauses are.
var proofStructure = map[string]bool{"inv-established": true, "inv-preserved": true, "cut": true, "pre": true}

var disciplineKinds = map[string]bool{"guarded": true, "lock": true, "callback-free": true, "immutable": true, "blocking": true, "errflow": true}

func (p *PropSpec) belongs(id string, pkgName string, o *Obligation) bool {
	if o.Kind == "canary" {
		return true
	}
	if len(o.Tags) > 0 {
		found := false
		for _, t := range o.Tags {
			if t == id {
				found = true
			}
		}
		if !found {
			return false
		}
	} else if p.TaggedOnly && !disciplineKinds[o.Kind] && !proofStructure[o.Kind] {
		return false
	} else if disciplineKinds[o.Kind] {
		ok := false
		for _, k := range p.Kinds {
			if k == o.Kind {
				ok = true
			}
		}
		if !ok {
			return false
		}
	}
	for _, s := range p.Exclude {
		if globMatch(s.Func, pkgName+":"+o.Func) && globMatch(s.Kind, o.Kind) && globMatch(s.Label, o.Label) {
			return false
		}
	}
	return true
}

// ---- evidence ----

type Evidence struct {
	PropertyID  string                 `json:"property_id"`
	Tier        string                 `json:"tier"`
	Seed        int                    `json:"seed"`
	Level       string                 `json:"level"`
	Coverage    map[string]interface{} `json:"coverage"`
	Assumptions []string               `json:"assumptions"`
	WallS       float64                `json:"wall_s"`
	Violations  int                    `json:"violations"`
}

func writeJSON(path string, v interface{}) error {
	os.MkdirAll(filepath.Dir(path), 0o755)
	b, err := json.MarshalIndent(v, "", " ")
	if err != nil {
		return err
	}
	return os.WriteFile(path, append(b, '\n'), 0o644)
}

func sanitize(s string) string {
	return regexp.MustCompile(`[^A-Za-z0-9_.-]+`).ReplaceAllString(s, "_")
}

var _ = time.Now

func renameExpr(e *Expr, ren map[string]string) *Expr {
	if e == nil {
		return nil
	}
	n := *e
	if e.Op == "id" {
		if x, ok := ren[e.Name]; ok {
			n.Name = x
		}
	}
	n.Args = nil
	n.Trig = nil
	for _, g := range e.Trig {
		var ng []*Expr
		for _, t := range g {
			ng = append(ng, renameExpr(t, ren))
		}
		n.Trig = append(n.Trig, ng)
	}
	for _, a := range e.Args {
		n.Args = append(n.Args, renameExpr(a, ren))
	}
	return &n
}

// typeLevelObligations: checks decided on the types alone (no solver): declared JSON member names of a struct.
func (e *Engine) typeLevelObligations() []*Obligation {
	var out []*Obligation
	for _, p := range e.loadedPkgs {
		cs := e.contracts[p.Pkg.Path()]
		if cs == nil {
			continue
		}
		for _, tn := range sortedKeys(cs.Types) {
			td := cs.Types[tn]
			if len(td.JSONMembers) == 0 {
				continue
			}
			o := p.Pkg.Scope().Lookup(tn)
			if o == nil {
				continue
			}
			stt, ok := o.Type().Underlying().(*types.Struct)
			if !ok {
				continue
			}
			var got []string
			for i := 0; i < stt.NumFields(); i++ {
				n := stt.Field(i).Name()
				if tag := reflectTag(stt.Tag(i), "json"); tag != "" {
					if q := strings.Split(tag, ","); q[0] != "" {
						n = q[0]
					}
					if strings.Contains(tag, ",omitempty") {
						n += "?"
					}
				}
				got = append(got, n)
			}
			goal := "true"
			if strings.Join(got, ",") != strings.Join(td.JSONMembers, ",") {
				goal = "false"
			}
			label, tags, _ := parseLabel(td.JSONLabel + ": x")
			name := "type " + tn + "/json-members:" + label
			ob := &Obligation{Name: name, Func: "type " + tn, Pkg: p.Pkg.Path(), Kind: "json-members", Label: label, Tags: tags,
				Query: &Query{Goal: goal}, Pos: fmt.Sprintf("%s:%d", td.JSONFile, td.JSONLine), ClauseKey: name, Expect: "unsat",
				PathDesc: "declared: " + strings.Join(td.JSONMembers, ",") + " / found: " + strings.Join(got, ",")}
			st := "unsat"
			if goal == "false" {
				st = "sat"
			}
			ob.Result = &SolverResult{Status: st, Solver: "go/types", Model: ob.PathDesc}
			out = append(out, ob)
		}
	}
	return out
}


// errFlow: zero-annotation sweep. A function whose last result is an error and which returns nil must not have
// seen a direct call fail whose error result it consumes somewhere (an error assigned to a shadowed variable,
// overwritten in a loop or dropped on one branch is exactly that). Only instances that discharge on the unchanged
// tree enter the baseline; the others (errors ignored on purpose) are never reported.
func (r *FnRun) errFlow(st *State, res []*V, ord int) {
	sig := r.fn.Signature
	n := sig.Results().Len()
	if n == 0 || types.TypeString(sig.Results().At(n-1).Type(), nil) != "error" || len(res) != n || res[n-1].K != KIface {
		return
	}
	nilErr := sEq(res[n-1].Tag, "0")
	for _, name := range r.failKeys() {
		if r.errDiscarded(name) {
			continue
		}
		cur, ok := st.ghost["fail:"+name]
		if !ok {
			continue // never called on this path
		}
		r.oblige(st, "errflow", name, nil, sImp(nilErr, sEq(cur, "0")), r.posOf(r.fn.Blocks[0].Instrs[0]), fmt.Sprintf("ret%d", ord))
	}
}

// errDiscarded: some call site of the callee in this function throws its error result away syntactically.
func (r *FnRun) errDiscarded(name string) bool {
	if r.errDisc == nil {
		r.errDisc = map[string]bool{}
		for _, b := range r.fn.Blocks {
			for _, ins := range b.Instrs {
				call, ok := ins.(*ssa.Call)
				if !ok {
					continue
				}
				sig := call.Call.Signature()
				n := sig.Results().Len()
				if n == 0 || types.TypeString(sig.Results().At(n-1).Type(), nil) != "error" {
					continue
				}
				cn := r.calleeName(&call.Call)
				used := false
				if refs := call.Referrers(); refs != nil {
					for _, u := range *refs {
						switch x := u.(type) {
						case *ssa.DebugRef:
						case *ssa.Extract:
							if x.Index == n-1 {
								if xr := x.Referrers(); xr != nil && len(*xr) > 0 {
									used = true
								}
							}
						default:
							if n == 1 {
								used = true
							}
						}
					}
				}
				if !used {
					r.errDisc[cn] = true
				}
			}
		}
	}
	return r.errDisc[name]
}


// belongsSupport: obligations of a function that is in the check only because a selected function relies on its
// contract: every clause counts (its tags say which property it was written for, not which proofs use it);
// discipline kinds only where the property claims them; the error-flow sweep is left to the properties that claim it.
func (p *PropSpec) belongsSupport(o *Obligation) bool {
	if o.Kind == "canary" {
		return true
	}
	if disciplineKinds[o.Kind] {
		for _, k := range p.Kinds {
			if k == o.Kind {
				return true
			}
		}
		return false
	}
	for _, s := range p.Exclude {
		if globMatch(s.Func, "*:"+o.Func) && globMatch(s.Kind, o.Kind) && globMatch(s.Label, o.Label) {
			return false
		}
	}
	return true
}
