export GOFLAGS=-mod=mod
export GOPROXY=off
export GOSUMDB=off
export GOTOOLCHAIN=local

build:
	mkdir -p bin out evidence
	cd govc && go build -o ../bin/govc .
	cp scripts/vcheck bin/vcheck

.PHONY: build
