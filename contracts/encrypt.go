//go:build verif

// Contracts for package encrypt, checked by /verif/govc (comment-only file; see /verif/DESIGN.md).

package encrypt

//@ func convertToOperation(seg) (op)
//@   assigns nothing
//@   ensures C09/only-known-operations: op == NoOperation || op == HmacSha256Operation || op == EncryptOperation || op == RedactOperation || op == UnknownOperation
//@   ensures C09/case-insensitive-match: (uf("strings.ToLower", seg) == "" ==> op == NoOperation) && (uf("strings.ToLower", seg) == "hmac-sha256" ==> op == HmacSha256Operation) && (uf("strings.ToLower", seg) == "encrypt" ==> op == EncryptOperation) && (uf("strings.ToLower", seg) == "redact" ==> op == RedactOperation)
//@   ensures C09/anything-else-is-unknown: !(uf("strings.ToLower", seg) == "" || uf("strings.ToLower", seg) == "hmac-sha256" || uf("strings.ToLower", seg) == "encrypt" || uf("strings.ToLower", seg) == "redact") ==> op == UnknownOperation
