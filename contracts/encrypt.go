//go:build verif

// Contracts for package encrypt, checked by /verif/govc (comment-only file; see /verif/DESIGN.md).

package encrypt

//@ func convertToOperation(seg) (op)
//@   assigns nothing
//@   ensures C09/only-known-operations: op == NoOperation || op == HmacSha256Operation || op == EncryptOperation || op == RedactOperation || op == UnknownOperation
//@   ensures C09/case-insensitive-match: (uf("strings.ToLower", seg) == "" ==> op == NoOperation) && (uf("strings.ToLower", seg) == "hmac-sha256" ==> op == HmacSha256Operation) && (uf("strings.ToLower", seg) == "encrypt" ==> op == EncryptOperation) && (uf("strings.ToLower", seg) == "redact" ==> op == RedactOperation)
//@   ensures C09/anything-else-is-unknown: !(uf("strings.ToLower", seg) == "" || uf("strings.ToLower", seg) == "hmac-sha256" || uf("strings.ToLower", seg) == "encrypt" || uf("strings.ToLower", seg) == "redact") ==> op == UnknownOperation

// reflect.Value is abstract: uf("reflect.Type", v) is the tag of its type, ufbool("reflect.CanSet", v) etc. its observers.
// Trace event "reflect:set" a0=target value a1=new data (string).
//@ pure isStringValue(fv reflect.Value) bool = uf("reflect.Type", fv) == typeid("string")
//@ pure isBytesValue(fv reflect.Value) bool = uf("reflect.Type", fv) == typeid("[]uint8")

//@ func setValue(fv, newVal) (err)
//@   assigns ev, elem:any
//@   ensures never-copies: events("sys:deepcopy") == old(events("sys:deepcopy"))
//@   ensures C09/only-settable-strings-and-bytes-are-set: (err == nil) <==> (ufbool("reflect.CanSet", fv) && (isStringValue(fv) || isBytesValue(fv)))
//@   ensures C09/exactly-one-mutation-with-the-given-data: err == nil ==> ev_n == old(ev_n) + 1 && ev_kind(old(ev_n)) == "reflect:set" && ev_a(old(ev_n), 0) == fv && ev_a(old(ev_n), 1) == newVal
//@   ensures C09/failure-mutates-nothing: err != nil ==> ev_n == old(ev_n)
//@   ensures C09/mutation-count: events("reflect:set") == old(events("reflect:set")) + ((err == nil) ? 1 : 0) && events("sys:psset") == old(events("sys:psset"))

// ---- the classification / operation decision (C09 kernel) ----

//@ functype Option(o)
//@   closedworld
//@   assigns options.withWrapper, options.withSalt, options.withInfo, options.withFilterOperations, options.withPointerstructureInfo, options.withIgnoreTaggable, options.withTrackedMaps

//@ func getOpts(opt) (opts)
//@   assigns elem:any
//@   ensures C09/never-mutates: events("reflect:set") == old(events("reflect:set")) && events("sys:psset") == old(events("sys:psset"))
//@   ensures C09/no-options-means-defaults: len(opt) == 0 ==> opts.withWrapper == nil && opts.withSalt == nil && opts.withInfo == nil && opts.withFilterOperations == nil && opts.withPointerstructureInfo == nil && !opts.withIgnoreTaggable && opts.withTrackedMaps == nil
//@   loop 1 invariant len(opt) == 0 ==> opts.withWrapper == nil && opts.withSalt == nil && opts.withInfo == nil && opts.withFilterOperations == nil && opts.withPointerstructureInfo == nil && !opts.withIgnoreTaggable && opts.withTrackedMaps == nil

//@ func DefaultFilterOperations() (m)
//@   assigns map:map[DataClassification]FilterOperation
//@   ensures C09/secure-defaults: m != nil && fresh(m) && (forall c DataClassification :: (c in m) == (c == PublicClassification || c == SensitiveClassification || c == SecretClassification)) && m[PublicClassification] == NoOperation && m[SensitiveClassification] == EncryptOperation && m[SecretClassification] == RedactOperation
//@   ensures oldobjects("map:map[DataClassification]FilterOperation")

//@ pure protecting(op FilterOperation) bool = op == EncryptOperation || op == HmacSha256Operation || op == RedactOperation

//@ func getClassificationFromTagString(tag, opt) (info)
//@   assigns map:map[DataClassification]FilterOperation, elem:string, elem:any
//@   ensures C09/always-an-answer: info != nil && fresh(info)
//@   ensures C09/known-classifications-only: len(opt) == 0 ==> info.Classification == PublicClassification || info.Classification == SensitiveClassification || info.Classification == SecretClassification || info.Classification == UnknownClassification
//@   ensures C09/unknown-classification-has-unknown-operation-unless-overridden: len(opt) == 0 && info.Classification == UnknownClassification ==> info.Operation == UnknownOperation
//@   ensures C09/without-overrides-no-spelling-leaves-classified-data-unprotected: len(opt) == 0 && (info.Classification == SensitiveClassification || info.Classification == SecretClassification) ==> protecting(info.Operation)
//@   ensures C09/defaults-encrypt-sensitive-redact-secret: len(opt) == 0 && uf("strings.SplitN", tag, ",") == 1 ==> (uf("strings.Split", tag, ",", 0) == "sensitive" ==> info.Classification == SensitiveClassification && info.Operation == EncryptOperation) && (uf("strings.Split", tag, ",", 0) == "secret" ==> info.Classification == SecretClassification && info.Operation == RedactOperation) && (uf("strings.Split", tag, ",", 0) == "public" ==> info.Classification == PublicClassification && info.Operation == NoOperation)
//@   ensures C09/public-is-never-filtered-by-default: len(opt) == 0 && info.Classification == PublicClassification ==> info.Operation == NoOperation

// ---- filtering one value (C09, C10 kernel) ----
// "protected" below means: exactly one mutation of the target, recorded as trace event reflect:set (direct) or
// call of pointerstructure.Set (tagged map value), with data produced by the configured operation.

// FilterOperationOverrides is configuration: no library code writes it after construction (reads need no lock)
//@ type Filter guarded_by l: Wrapper, HmacSalt, HmacInfo
//@ type Filter immutable FilterOperationOverrides, IgnoreTypes

//@ iface wrapping.Wrapper.Encrypt(ctx, data, opt) (blob, err)
//@   assigns ctxdone

//@ pure nilValue() reflect.Value = uf("reflect.ValueOf", 0, 0)
//@ pure derefSlice(v reflect.Value) reflect.Value = (uf("reflect.Kind", v) == 22 && !ufbool("reflect.IsNil", v)) ? uf("reflect.Elem", v) : v

//@ func (*Filter).filterValue(ctx, fv, classificationTag, opt) (err)
//@   requires ef != nil && held(ef.l) == 0
//@   assigns ev, ctxdone, elem:any, elem:uint8, held, lockacq
//@   ensures C09/a-failing-step-fails-the-call: err == nil ==> failedCalls("(*Filter).encrypt") == 0 && failedCalls("(*Filter).hmacSha256") == 0 && failedCalls("setValue") == 0
//@   ensures never-copies: events("sys:deepcopy") == old(events("sys:deepcopy"))
//@   ensures C09/missing-tag-is-an-error: classificationTag == nil ==> err != nil && ev_n == old(ev_n)
//@   ensures C09+C10/public-and-explicit-no-operation-are-left-alone: classificationTag != nil && (classificationTag.Classification == PublicClassification || classificationTag.Operation == NoOperation) ==> err == nil && ev_n == old(ev_n)
//@   ensures C09/failure-mutates-nothing: err != nil ==> events("reflect:set") == old(events("reflect:set")) && (events("sys:psset") == old(events("sys:psset")) || (ev_kind(ev_n - 1) == "sys:psset" && ev_a(ev_n - 1, 7) != 0))
//@   ensures not-recursive: callsTo("(*Filter).filterValue") == old(callsTo("(*Filter).filterValue"))
//@   ensures C09/at-most-one-mutation: events("reflect:set") + events("sys:psset") <= old(events("reflect:set")) + old(events("sys:psset")) + 1
//@   ensures C09/nil-only-if-protected-or-nothing-to-protect: err == nil && len(opt) == 0 && classificationTag != nil && !(classificationTag.Classification == PublicClassification || classificationTag.Operation == NoOperation) && fv != nilValue() && ufbool("reflect.CanSet", strOrSelf(fv)) && !(isBytesValue(strOrSelf(fv)) && ufbool("reflect.IsNil", strOrSelf(fv))) ==> events("reflect:set") == old(events("reflect:set")) + 1
//@   ensures C09/unsettable-classified-value-is-not-forwarded-in-clear: len(opt) == 0 && classificationTag != nil && !(classificationTag.Classification == PublicClassification || classificationTag.Operation == NoOperation) && fv != nilValue() && (isStringValue(strOrSelf(fv)) || isBytesValue(strOrSelf(fv))) && !ufbool("reflect.CanSet", strOrSelf(fv)) ==> err != nil
//@   ensures C09/redaction-writes-the-marker: err == nil && len(opt) == 0 && classificationTag != nil && classificationTag.Classification != PublicClassification && (classificationTag.Operation == RedactOperation || !(classificationTag.Classification == SecretClassification || classificationTag.Classification == SensitiveClassification)) && events("reflect:set") == old(events("reflect:set")) + 1 ==> ev_kind(ev_n - 1) == "reflect:set" && ev_a(ev_n - 1, 1) == "[REDACTED]"
//@   ensures locks-restored: unchanged("held")
//@   ensures unlocked: held(ef.l) == 0

//@ pure strOrSelf(fv reflect.Value) reflect.Value = (uf("reflect.Kind", fv) == 22 && uf("reflect.Kind", uf("reflect.Elem", fv)) == 24) ? uf("reflect.Elem", fv) : fv

//@ func (*Filter).filterSlice(ctx, classificationTag, slice, opt) (err)
//@   requires ef != nil && held(ef.l) == 0
//@   assigns ev, ctxdone, elem:any, elem:uint8, held, lockacq
//@   ensures C09/an-element-that-cannot-be-filtered-fails-the-call: err == nil ==> failedCalls("(*Filter).filterValue") == 0
//@   ensures never-copies: events("sys:deepcopy") == old(events("sys:deepcopy"))
//@   ensures C09/missing-tag-is-an-error: classificationTag == nil ==> err != nil && ev_n == old(ev_n)
//@   ensures C09/public-slices-are-left-alone: classificationTag != nil && classificationTag.Classification == PublicClassification ==> err == nil && ev_n == old(ev_n)
//@   ensures C09/every-element-is-filtered-or-the-call-fails: err == nil && classificationTag != nil && classificationTag.Classification != PublicClassification && slice != nilValue() ==> callsTo("(*Filter).filterValue") == old(callsTo("(*Filter).filterValue")) + uf("reflect.Len", derefSlice(slice))
//@   ensures C09/first-failing-element-fails-the-call: callsTo("(*Filter).filterValue") >= old(callsTo("(*Filter).filterValue"))
//@   ensures locks-restored: unchanged("held")
//@   ensures unlocked: held(ef.l) == 0
//@   loop 1 invariant failedCalls("(*Filter).filterValue") == 0
//@   loop 1 invariant events("sys:deepcopy") == old(events("sys:deepcopy")) && unchanged("held") && held(ef.l) == 0 && 0 <= i && callsTo("(*Filter).filterValue") == old(callsTo("(*Filter).filterValue")) + i && classificationTag != nil && classificationTag.Classification != PublicClassification && old(slice) != nilValue() && slice == derefSlice(old(slice)) && i <= uf("reflect.Len", slice)

// ---- cryptographic operations (C16 kernel): results are uninterpreted functions of key material and data ----
// Trace events: "call:wrapping.Wrapper.Encrypt" a0=wrapper a3=array of the plaintext; a5=blob a6/a7=error.

//@ func NewDerivedReader(ctx, wrapper, lenLimit, salt, info) (reader, err)
//@   trusted
//@   assigns nothing
//@   ensures C16/needs-a-wrapper-and-a-sane-limit: (wrapper == nil || lenLimit < 20) ==> err != nil
//@   ensures C16/reader-is-a-function-of-key-salt-and-info: err == nil ==> reader != nil && ref(reader) == uf("hkdf", valof(wrapper), content(salt), content(info))

//@ func (*Filter).encrypt(ctx, data, opt) (out, err)
//@   requires ef != nil && held(ef.l) == 0
//@   assigns ev, ctxdone, elem:any, held, lockacq
//@   ensures C09+C16/a-failing-wrapper-fails-the-call: err == nil ==> failedCalls("wrapping.Wrapper.Encrypt") == 0
//@   ensures never-copies: events("sys:deepcopy") == old(events("sys:deepcopy"))
//@   ensures C16/missing-data-or-wrapper-is-an-error: (data == nil || (len(opt) == 0 && ef.Wrapper == nil)) ==> err != nil && out == ""
//@   ensures C16/encrypts-under-the-filters-wrapper-read-under-its-lock: err == nil && len(opt) == 0 ==> calls("wrapping.Wrapper.Encrypt") == old(calls("wrapping.Wrapper.Encrypt")) + 1 && ev_kind(ev_n - 1) == "call:wrapping.Wrapper.Encrypt" && ev_a(ev_n - 1, 0) == valof(ef.Wrapper) && ev_a(ev_n - 1, 3) == arr(data)
//@   ensures C16/failure-yields-no-ciphertext: err != nil ==> out == ""
//@   ensures C16+C19/single-critical-section: data != nil ==> acquisitions(ef.l) == old(acquisitions(ef.l)) + 1
//@   ensures C09/never-mutates: events("reflect:set") == old(events("reflect:set")) && events("sys:psset") == old(events("sys:psset"))
//@   ensures locks-restored: unchanged("held")
//@   ensures unlocked: held(ef.l) == 0

//@ func (*Filter).hmacSha256(ctx, data, opt) (out, err)
//@   requires ef != nil && held(ef.l) == 0
//@   assigns ev, ctxdone, elem:any, elem:uint8, held, lockacq
//@   ensures C16/the-key-is-derived-afresh-for-every-value-never-cached: err == nil ==> callsTo("NewDerivedReader") == old(callsTo("NewDerivedReader")) + 1
//@   ensures C09+C16/a-failing-key-derivation-fails-the-call: err == nil ==> failedCalls("NewDerivedReader") == 0
//@   ensures never-copies: events("sys:deepcopy") == old(events("sys:deepcopy"))
//@   ensures C16/missing-data-or-wrapper-is-an-error: (data == nil || (len(opt) == 0 && ef.Wrapper == nil)) ==> err != nil && out == ""
//@   ensures C16/failure-yields-no-digest: err != nil ==> out == ""
//@   ensures C16+C19/single-critical-section: data != nil ==> acquisitions(ef.l) == old(acquisitions(ef.l)) + 1
//@   ensures C09/never-mutates: events("reflect:set") == old(events("reflect:set")) && events("sys:psset") == old(events("sys:psset"))
//@   ensures locks-restored: unchanged("held")
//@   ensures unlocked: held(ef.l) == 0
//@   atcall NewDerivedReader#1 C16/derives-the-key-from-the-salt-and-info-in-force: held(ef.l) == 2 && (len(opt) == 0 ==> w == ef.Wrapper && len(salt) == len(ef.HmacSalt) && len(info) == len(ef.HmacInfo) && (forall k int :: 0 <= k && k < len(salt) ==> salt[k] == ef.HmacSalt[k]) && (forall k int :: 0 <= k && k < len(info) ==> info[k] == ef.HmacInfo[k]))

// ---- the per-event walk (thin contracts: locks, failure, who may mutate) ----
// The reflection walk itself (which fields are reached) is outside the fragment: these contracts state only what
// Process relies on; filterField/filterTaggable are assumed (trusted), processUnfiltered is verified against a
// thin contract (locks, failure propagation, tracker identity) with modular loops, see DESIGN.md.

//@ func (*Filter).ignore(v) (ig)
//@   assigns nothing
//@   ensures C09+C10/only-values-of-exactly-a-listed-type-are-ignored: ig ==> (exists i int :: 0 <= i && i < len(f.IgnoreTypes) && valof(f.IgnoreTypes[i]) == uf("reflect.Type", v))
//@   ensures C09+C10/nothing-is-ignored-without-a-list: len(f.IgnoreTypes) == 0 ==> !ig
//@   loop 1 invariant true

//@ func (*Filter).copyFilterOperationOverrides() (cp)
//@   requires ef != nil && held(ef.l) == 0
//@   assigns held, lockacq, map:map[DataClassification]FilterOperation
//@   ensures unlocked: held(ef.l) == 0
//@   ensures C09/no-overrides-no-copy: ef.FilterOperationOverrides == nil ==> cp == nil
//@   ensures C09/consistent-snapshot-of-the-overrides: ef.FilterOperationOverrides != nil ==> fresh(cp) && (forall c DataClassification :: ((c in cp) == (c in ef.FilterOperationOverrides)) && ((c in cp) ==> cp[c] == ef.FilterOperationOverrides[c]))
//@   ensures oldobjects("map:map[DataClassification]FilterOperation")
//@   ensures never-mutates: ev_n == old(ev_n)
//@   loop 1 invariant oldobjects("map:map[DataClassification]FilterOperation") && held(ef.l) == 1 && fresh(cp) && cp != nil && (forall c DataClassification :: ((c in cp) == visited(c)) && (visited(c) ==> (c in ranged()) && (c in ef.FilterOperationOverrides) && cp[c] == ef.FilterOperationOverrides[c]))

//@ func newTrackedMaps(tm) (maps, err)
//@   assigns held, lockacq, elem:any, map:map[uintptr]*tMap, trackedMaps.tracked
//@   ensures no-arguments-cannot-fail: len(tm) == 0 ==> err == nil && unchanged("lockacq")
//@   ensures a-new-tracker: err == nil ==> maps != nil && fresh(maps) && held(maps.l) == 0
//@   ensures other-locks-untouched: oldlocks("held")
//@   ensures never-mutates: ev_n == old(ev_n)
//@   loop 1 invariant maps != nil && fresh(maps) && held(maps.l) == 0 && ev_n == old(ev_n) && oldlocks("held") && (len(tm) == 0 ==> unchanged("lockacq"))

//@ func (*Filter).filterField(ctx, v, filterOverrides, tm, opt) (err)
//@   requires ef != nil && held(ef.l) == 0 && tm != nil && held(tm.l) == 0
//@   assigns ev, ctxdone, elem:any, elem:uint8, held, lockacq, map:map[uintptr]*tMap, tMap.filtered, tMap.filteredFields, map:map[string]struct{}, trackedMaps.tracked, map:map[DataClassification]FilterOperation, elem:string
//@   ensures C09/any-field-that-cannot-be-filtered-fails-the-walk: err == nil ==> failedCalls("(*Filter).filterValue") == 0 && failedCalls("(*Filter).filterSlice") == 0 && failedCalls("(*Filter).filterTaggable") == 0 && failedCalls("(*Filter).filterField") == 0
//@   ensures never-copies: events("sys:deepcopy") == old(events("sys:deepcopy"))
//@   ensures locks-restored: oldlocks("held")
//@   ensures unlocked: held(ef.l) == 0 && held(tm.l) == 0
//@   atcall (*Filter).filterTaggable@1 C09/maps-met-below-are-collected-in-the-callers-tracker: callarg(4) == tm
//@   atcall (*Filter).filterTaggable@2 C09/maps-met-below-are-collected-in-the-callers-tracker: callarg(4) == tm
//@   atcall (*Filter).filterField@1 C09/maps-met-below-are-collected-in-the-callers-tracker: callarg(4) == tm
//@   atcall (*Filter).filterField@2 C09/maps-met-below-are-collected-in-the-callers-tracker: callarg(4) == tm
//@   atcall (*Filter).filterField@3 C09/maps-met-below-are-collected-in-the-callers-tracker: callarg(4) == tm
//@   loop 1 modular
//@   loop 2 modular
//@   loop 3 modular
//@   loop 1 invariant option-strip-bounds: 0 <= i && 0 <= removeIdx && removeIdx < len(opt)
//@   loop 1 invariant ef != nil && tm == entry(tm) && tm != nil && held(ef.l) == 0 && held(tm.l) == 0 && oldlocks("held") && events("sys:deepcopy") == old(events("sys:deepcopy")) && failedCalls("(*Filter).filterValue") == 0 && failedCalls("(*Filter).filterSlice") == 0 && failedCalls("(*Filter).filterTaggable") == 0 && failedCalls("(*Filter).filterField") == 0
//@   loop 2 invariant ef != nil && tm == entry(tm) && tm != nil && held(ef.l) == 0 && held(tm.l) == 0 && oldlocks("held") && events("sys:deepcopy") == old(events("sys:deepcopy")) && failedCalls("(*Filter).filterValue") == 0 && failedCalls("(*Filter).filterSlice") == 0 && failedCalls("(*Filter).filterTaggable") == 0 && failedCalls("(*Filter).filterField") == 0
//@   loop 3 invariant ef != nil && tm == entry(tm) && tm != nil && held(ef.l) == 0 && held(tm.l) == 0 && oldlocks("held") && events("sys:deepcopy") == old(events("sys:deepcopy")) && failedCalls("(*Filter).filterValue") == 0 && failedCalls("(*Filter).filterSlice") == 0 && failedCalls("(*Filter).filterTaggable") == 0 && failedCalls("(*Filter).filterField") == 0

//@ func (*trackedMaps).trackTaggable(taggable, pointer) (err)
//@   trusted
//@   requires maps != nil && held(maps.l) == 0
//@   assigns held, lockacq, map:map[uintptr]*tMap, trackedMaps.tracked, tMap.filteredFields, map:map[string]struct{}, elem:any, elem:string
//@   ensures never-mutates: ev_n == old(ev_n)
//@   ensures locks-restored: oldlocks("held") && held(maps.l) == 0

//@ iface Taggable.Tags() (tags, err)
//@   assigns nothing

//@ func (*Filter).filterTaggable(ctx, t, filterOverrides, tm, opt) (err)
//@   requires ef != nil && held(ef.l) == 0 && tm != nil && held(tm.l) == 0
//@   assigns ev, ctxdone, elem:any, elem:uint8, held, lockacq, map:map[uintptr]*tMap, tMap.filtered, tMap.filteredFields, map:map[string]struct{}, trackedMaps.tracked, map:map[DataClassification]FilterOperation, elem:string
//@   ensures C09/any-tagged-value-that-cannot-be-filtered-fails-the-walk: err == nil ==> failedCalls("(*Filter).filterValue") == 0 && failedCalls("(*trackedMaps).trackTaggable") == 0 && failedCalls("encrypt.Taggable.Tags") == 0
//@   ensures never-copies: events("sys:deepcopy") == old(events("sys:deepcopy"))
//@   ensures locks-restored: oldlocks("held")
//@   ensures unlocked: held(ef.l) == 0 && held(tm.l) == 0
//@   loop 1 modular
//@   loop 1 invariant ef != nil && tm == entry(tm) && tm != nil && held(ef.l) == 0 && held(tm.l) == 0 && oldlocks("held") && events("sys:deepcopy") == old(events("sys:deepcopy")) && failedCalls("(*Filter).filterValue") == 0 && failedCalls("(*trackedMaps).trackTaggable") == 0 && failedCalls("encrypt.Taggable.Tags") == 0

//@ func (*trackedMaps).processUnfiltered(ctx, ef, filterOverrides, opt) (err)
//@   requires maps != nil && (ef != nil ==> held(ef.l) == 0) && held(maps.l) == 0
//@   assigns ev, ctxdone, elem:any, elem:uint8, held, lockacq, map:map[uintptr]*tMap, tMap.filtered, tMap.filteredFields, map:map[string]struct{}, trackedMaps.tracked, elem:*tMap
//@   ensures C09/a-missing-filter-is-an-error: ef == nil ==> err != nil
//@   ensures C09/any-value-that-cannot-be-filtered-fails-the-sweep: err == nil ==> failedCalls("(*Filter).filterValue") == 0 && failedCalls("(*Filter).filterSlice") == 0 && failedCalls("(*Filter).filterField") == 0 && failedCalls("(*trackedMaps).processUnfiltered") == 0 && failedCalls("newTrackedMaps") == 0
//@   ensures never-copies: events("sys:deepcopy") == old(events("sys:deepcopy"))
//@   ensures locks-restored: oldlocks("held")
//@   ensures unlocked: ef != nil ==> held(ef.l) == 0
//@   atcall (*trackedMaps).processUnfiltered@2 C09/maps-found-inside-a-struct-value-are-swept-with-the-tracker-that-collected-them: callarg(0) == prevcallarg("(*Filter).filterField", 4)
//@   atcall (*Filter).filterValue@1 C09/values-of-untagged-maps-are-filtered-under-the-secure-default: callarg(3) == classificationTag && classificationTag != nil && classificationTag.Classification == UnknownClassification && classificationTag.Operation == UnknownOperation
//@   atcall (*Filter).filterValue@2 C09/values-of-untagged-maps-are-filtered-under-the-secure-default: callarg(3) == classificationTag && classificationTag != nil && classificationTag.Classification == UnknownClassification && classificationTag.Operation == UnknownOperation
//@   atcall (*Filter).filterValue@3 C09/values-of-untagged-maps-are-filtered-under-the-secure-default: callarg(3) == classificationTag && classificationTag != nil && classificationTag.Classification == UnknownClassification && classificationTag.Operation == UnknownOperation
//@   atcall (*Filter).filterValue@4 C09/values-of-untagged-maps-are-filtered-under-the-secure-default: callarg(3) == classificationTag && classificationTag != nil && classificationTag.Classification == UnknownClassification && classificationTag.Operation == UnknownOperation
//@   atcall (*Filter).filterSlice@1 C09/values-of-untagged-maps-are-filtered-under-the-secure-default: callarg(2) == classificationTag && classificationTag != nil && classificationTag.Classification == UnknownClassification && classificationTag.Operation == UnknownOperation
//@   atcall (reflect.Value).SetMapIndex@1 C09/the-value-written-back-into-the-map-is-the-one-that-was-filtered: callarg(2) == prevcallarg("(*Filter).filterValue", 2) && callarg(0) == v
//@   atcall (reflect.Value).SetMapIndex@2 C09/the-value-written-back-into-the-map-is-the-one-that-was-filtered: callarg(2) == prevcallarg("(*Filter).filterValue", 2) && callarg(0) == v
//@   loop 1 modular
//@   loop 2 modular
//@   loop 3 modular
//@   loop 1 invariant ef != nil && maps != nil && held(ef.l) == 0 && oldlocks("held") && events("sys:deepcopy") == old(events("sys:deepcopy")) && failedCalls("(*Filter).filterValue") == 0 && failedCalls("(*Filter).filterSlice") == 0 && failedCalls("(*Filter).filterField") == 0 && failedCalls("(*trackedMaps).processUnfiltered") == 0 && failedCalls("newTrackedMaps") == 0
//@   loop 2 invariant ef != nil && maps != nil && held(ef.l) == 0 && oldlocks("held") && classificationTag != nil && classificationTag.Classification == UnknownClassification && classificationTag.Operation == UnknownOperation && events("sys:deepcopy") == old(events("sys:deepcopy")) && failedCalls("(*Filter).filterValue") == 0 && failedCalls("(*Filter).filterSlice") == 0 && failedCalls("(*Filter).filterField") == 0 && failedCalls("(*trackedMaps).processUnfiltered") == 0 && failedCalls("newTrackedMaps") == 0
//@   loop 3 invariant ef != nil && maps != nil && held(ef.l) == 0 && oldlocks("held") && classificationTag != nil && classificationTag.Classification == UnknownClassification && classificationTag.Operation == UnknownOperation && events("sys:deepcopy") == old(events("sys:deepcopy")) && failedCalls("(*Filter).filterValue") == 0 && failedCalls("(*Filter).filterSlice") == 0 && failedCalls("(*Filter).filterField") == 0 && failedCalls("(*trackedMaps).processUnfiltered") == 0 && failedCalls("newTrackedMaps") == 0

//@ func (*trackedMaps).trackMap(tm) (err)
//@   requires maps != nil && held(maps.l) == 0
//@   assigns held, lockacq, map:map[uintptr]*tMap, trackedMaps.tracked, elem:any
//@   ensures ev_n == old(ev_n) && unchanged("held")
//@   ensures held(maps.l) == 0

//@ func NewEventWrapper(ctx, wrapper, eventId) (w, err)
//@   trusted
//@   assigns nothing
//@   ensures C16/needs-a-wrapper-and-an-event-id: (wrapper == nil || eventId == "") ==> err != nil
//@   ensures C16/derived-deterministically-from-the-base-wrapper-and-the-event-id: err == nil ==> w != nil && valof(w) == uf("eventwrapper", valof(wrapper), eventId)
//@   ensures err != nil ==> w == nil

// effective operation per classification: the override when present, else the default
//@ pure effOp(m map[DataClassification]FilterOperation, c DataClassification) FilterOperation = (c in m) ? m[c] : ((c == SensitiveClassification) ? EncryptOperation : ((c == SecretClassification) ? RedactOperation : NoOperation))
//@ pure nothingFiltered(m map[DataClassification]FilterOperation) bool = effOp(m, PublicClassification) == NoOperation && effOp(m, SensitiveClassification) == NoOperation && effOp(m, SecretClassification) == NoOperation

//@ pure isClass(c DataClassification) bool = c == PublicClassification || c == SensitiveClassification || c == SecretClassification
//@ pure defaultOp(c DataClassification) FilterOperation = (c == SensitiveClassification) ? EncryptOperation : ((c == SecretClassification) ? RedactOperation : NoOperation)
//@ pure needsKey(op FilterOperation) bool = op == EncryptOperation || op == HmacSha256Operation
//@ pure payloadValueOf(e *eventlogger.Event) reflect.Value = uf("reflect.ValueOf", tagof(e.Payload), valof(e.Payload))

// Trace events: sys:deepcopy a0=source a5/a6=copy; reflect:set and sys:psset are the only mutations of payload data.
//@ func (*Filter).Process(ctx, e) (out, err)
//@   requires ef != nil && noLocksHeld()
//@   ensures C09/missing-event-is-an-error: e == nil ==> err != nil
//@   ensures C09/fails-closed-an-error-forwards-nothing: err != nil ==> out == nil
//@   ensures C09+C16/a-rotation-payload-is-consumed-never-forwarded: e != nil && old(e.Payload != nil && !nothingFiltered(ef.FilterOperationOverrides) && tagImplements(tagof(e.Payload), "RotateWrapper")) ==> out == nil && err == nil
//@   ensures C16+C19/rotation-is-one-exclusive-critical-section: e != nil && old(e.Payload != nil && !nothingFiltered(ef.FilterOperationOverrides) && tagImplements(tagof(e.Payload), "RotateWrapper")) ==> acquisitions(ef.l) == old(acquisitions(ef.l)) + 1 && events("sys:deepcopy") == old(events("sys:deepcopy"))
//@   ensures C16/rotated-salt-and-info-have-the-length-of-the-payloads-salt-and-info: e != nil && old(e.Payload != nil && !nothingFiltered(ef.FilterOperationOverrides) && tagImplements(tagof(e.Payload), "RotateWrapper")) ==> (ef.HmacInfo == old(ef.HmacInfo) || len(ef.HmacInfo) == uf("rotate.infolen", old(e.Payload))) && (ef.HmacSalt == old(ef.HmacSalt) || len(ef.HmacSalt) == uf("rotate.saltlen", old(e.Payload)))
//@   ensures C10/nil-payload-is-forwarded-unchanged: e != nil && old(e.Payload == nil) ==> out == e && err == nil && ev_n == old(ev_n)
//@   ensures C10/all-operations-none-is-forwarded-unchanged: e != nil && old(e.Payload != nil && nothingFiltered(ef.FilterOperationOverrides)) ==> out == e && err == nil && ev_n == old(ev_n)
//@   ensures C10/the-original-is-handed-back-only-when-nothing-is-filtered: out != nil && out == e ==> old(e.Payload == nil || nothingFiltered(ef.FilterOperationOverrides) || ufbool("reflect.IsZero", payloadValueOf(e)))
//@   ensures C10/otherwise-the-forwarded-event-is-a-private-copy: out != nil && out != e ==> fresh(out) && events("sys:deepcopy") == old(events("sys:deepcopy")) + 1
//@   ensures C10/never-mutates-without-a-copy: events("sys:deepcopy") == old(events("sys:deepcopy")) ==> events("reflect:set") == old(events("reflect:set")) && events("sys:psset") == old(events("sys:psset"))
//@   ensures C09/a-needed-wrapper-that-is-missing-is-an-error: err == nil && out != nil && out != e && old(ef.Wrapper == nil) && !old(tagImplements(tagof(e.Payload), "EventWrapperInfo")) ==> !old(needsKey(effOp(ef.FilterOperationOverrides, PublicClassification))) && !old(needsKey(effOp(ef.FilterOperationOverrides, SensitiveClassification))) && !old(needsKey(effOp(ef.FilterOperationOverrides, SecretClassification)))
//@   ensures C09/untagged-maps-are-swept-before-forwarding-unless-the-payload-type-is-ignored: out != nil && out != e ==> callsTo("(*trackedMaps).processUnfiltered") > old(callsTo("(*trackedMaps).processUnfiltered")) || (events("reflect:set") == old(events("reflect:set")) && events("sys:psset") == old(events("sys:psset")))
//@   ensures C09/any-failing-step-fails-the-event: out != nil ==> failedCalls("(*Filter).filterValue") == 0 && failedCalls("(*Filter).filterSlice") == 0 && failedCalls("(*Filter).filterField") == 0 && failedCalls("(*Filter).filterTaggable") == 0 && failedCalls("(*trackedMaps).processUnfiltered") == 0 && failedCalls("newTrackedMaps") == 0 && failedCalls("copystructure.Copy") == 0 && failedCalls("NewEventWrapper") == 0
//@   ensures unlocked: held(ef.l) == 0
//@   loop 1 invariant L1: fresh(filterOps) && filterOps != nil && oldobjects("map:map[DataClassification]FilterOperation") && e == entry(e) && ev_n == old(ev_n) && held(ef.l) == 0 && unchanged("lockacq")
//@   loop 1 invariant L1dom: forall c DataClassification :: {c in filterOps} (c in filterOps) == isClass(c)
//@   loop 1 invariant L1val: forall c DataClassification :: {filterOps[c]} isClass(c) ==> filterOps[c] == (visited(c) ? old(effOp(ef.FilterOperationOverrides, c)) : defaultOp(c))
//@   loop 1 invariant L1vis: forall c DataClassification :: {visited(c)} visited(c) ==> isClass(c)
//@   loop 1 invariant L1flt: filtered <==> ((visited(PublicClassification) && old(effOp(ef.FilterOperationOverrides, PublicClassification)) != NoOperation) || (visited(SensitiveClassification) && old(effOp(ef.FilterOperationOverrides, SensitiveClassification)) != NoOperation) || (visited(SecretClassification) && old(effOp(ef.FilterOperationOverrides, SecretClassification)) != NoOperation))
//@   loop 2 invariant L2: e == entry(e) && events("reflect:set") == old(events("reflect:set")) && events("sys:psset") == old(events("sys:psset")) && events("sys:deepcopy") == old(events("sys:deepcopy")) && callsTo("(*trackedMaps).processUnfiltered") == old(callsTo("(*trackedMaps).processUnfiltered")) && held(ef.l) == 0 && e != nil && old(e.Payload != nil && !nothingFiltered(ef.FilterOperationOverrides) && !tagImplements(tagof(e.Payload), "RotateWrapper"))
//@   loop 2 invariant L2k: forall c DataClassification :: {visited(c)} visited(c) ==> !needsKey(filterOps[c])
//@   cut before reflect.ValueOf@1 C10/nothing-is-mutated-before-the-copy: held(ef.l) == 0 && e != nil && e == entry(e) && events("reflect:set") == old(events("reflect:set")) && events("sys:psset") == old(events("sys:psset")) && events("sys:deepcopy") == old(events("sys:deepcopy")) && callsTo("(*trackedMaps).processUnfiltered") == old(callsTo("(*trackedMaps).processUnfiltered")) && old(e.Payload != nil && !nothingFiltered(ef.FilterOperationOverrides) && !tagImplements(tagof(e.Payload), "RotateWrapper")) && unchanged("eventlogger.Event.Payload")
//@   cut before reflect.ValueOf@1 C09/a-needed-wrapper-was-checked-before-the-copy: old(ef.Wrapper == nil && !tagImplements(tagof(e.Payload), "EventWrapperInfo")) ==> !old(needsKey(effOp(ef.FilterOperationOverrides, PublicClassification))) && !old(needsKey(effOp(ef.FilterOperationOverrides, SensitiveClassification))) && !old(needsKey(effOp(ef.FilterOperationOverrides, SecretClassification)))
//@   atcall copystructure.Copy#1 C10/the-whole-event-is-copied-not-a-part-of-it: valof(callarg(0)) == e && e == entry(e) && tagof(callarg(0)) == typeid("*eventlogger.Event")
//@   atcall copystructure.Copy#1 C19/the-shared-event-is-not-read-while-another-pipeline-may-format-it: held(e.l) >= 1
//@   atcall (*trackedMaps).processUnfiltered@1 C09/the-tracker-that-collected-the-maps-is-the-one-swept: callarg(0) == tm && tm != nil
//@   atcall NewEventWrapper#1 C16+C19/the-base-wrapper-is-read-under-the-filter-lock: held(ef.l) >= 1
//@   atcall (*Filter).filterValue@1 C09/an-unsettable-string-payload-is-refused: ufbool("reflect.CanSet", payloadValue)
//@   atcall (*Filter).filterValue@1 C10/the-walk-is-rooted-at-the-private-copy: e != entry(e) && fresh(e) && (payloadValue == payloadValueOf(e) || payloadValue == uf("reflect.Elem", payloadValueOf(e)))
//@   atcall (*Filter).filterSlice@1 C10/the-walk-is-rooted-at-the-private-copy: e != entry(e) && fresh(e) && (payloadValue == payloadValueOf(e) || payloadValue == uf("reflect.Elem", payloadValueOf(e)))
//@   atcall (*Filter).filterField@1 C10/the-walk-is-rooted-at-the-private-copy: e != entry(e) && fresh(e) && (payloadValue == payloadValueOf(e) || payloadValue == uf("reflect.Elem", payloadValueOf(e)))
//@   atcall (*Filter).filterTaggable@1 C10/the-walk-is-rooted-at-the-private-copy: e != entry(e) && fresh(e) && tagof(taggedInterface) == uf("reflect.Type", payloadValueOf(e)) && valof(taggedInterface) == uf("reflect.Interface", payloadValueOf(e))
//@   cut before reflect.ValueOf@1 C09/no-step-has-failed-so-far: failedCalls("(*Filter).filterValue") == 0 && failedCalls("(*Filter).filterSlice") == 0 && failedCalls("(*Filter).filterField") == 0 && failedCalls("(*Filter).filterTaggable") == 0 && failedCalls("(*trackedMaps).processUnfiltered") == 0 && failedCalls("newTrackedMaps") == 0 && failedCalls("copystructure.Copy") == 0 && failedCalls("NewEventWrapper") == 0
//@   loop 3 invariant L3fail: failedCalls("(*Filter).filterValue") == 0 && failedCalls("(*Filter).filterSlice") == 0 && failedCalls("(*Filter).filterField") == 0 && failedCalls("(*Filter).filterTaggable") == 0 && failedCalls("(*trackedMaps).processUnfiltered") == 0 && failedCalls("newTrackedMaps") == 0 && failedCalls("copystructure.Copy") == 0 && failedCalls("NewEventWrapper") == 0
//@   loop 3 invariant held(ef.l) == 0 && ef != nil && tm != nil && held(tm.l) == 0 && e != entry(e) && fresh(e) && events("sys:deepcopy") == old(events("sys:deepcopy")) + 1 && callsTo("(*trackedMaps).processUnfiltered") == old(callsTo("(*trackedMaps).processUnfiltered"))


//@ func (*Filter).Rotate(opt) ()
//@   requires ef != nil && held(ef.l) == 0
//@   assigns held, lockacq, elem:any, Filter.Wrapper, Filter.HmacSalt, Filter.HmacInfo
//@   ensures C16+C19/rotation-is-one-exclusive-critical-section: acquisitions(ef.l) == old(acquisitions(ef.l)) + 1 && held(ef.l) == 0
//@   ensures C16/no-options-change-nothing: len(opt) == 0 ==> ef.Wrapper == old(ef.Wrapper) && ef.HmacSalt == old(ef.HmacSalt) && ef.HmacInfo == old(ef.HmacInfo)
//@   ensures C16/a-nil-option-keeps-the-value-in-force: (ef.Wrapper != nil || old(ef.Wrapper) == nil)
//@   ensures never-mutates: ev_n == old(ev_n)

// Payload accessor methods are user code; assumed not to touch the filter or the trace (see DESIGN.md, assumptions).
//@ iface RotateWrapper.Wrapper() (w)
//@   assigns nothing
//@ iface RotateWrapper.HmacSalt() (s)
//@   assigns nothing
//@   ensures assumed-the-accessor-is-deterministic-in-length: len(s) == uf("rotate.saltlen", recv)
//@ iface RotateWrapper.HmacInfo() (s)
//@   assigns nothing
//@   ensures assumed-the-accessor-is-deterministic-in-length: len(s) == uf("rotate.infolen", recv)
//@ iface EventWrapperInfo.EventId() (id)
//@   assigns nothing
//@ iface EventWrapperInfo.HmacSalt() (s)
//@   assigns nothing
//@ iface EventWrapperInfo.HmacInfo() (s)
//@   assigns nothing
