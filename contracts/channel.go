//go:build verif

// Contracts for package channel, checked by /verif/govc (comment-only file; see /verif/DESIGN.md).

package channel

//@ type ChannelSink immutable eventChan, timeoutDuration constructors NewChannelSink

//@ func NewChannelSink(c, t) (s, err)
//@   ensures C13/rejects-missing-channel-or-nonpositive-timeout: (c == nil || t <= 0) ==> err != nil && s == nil
//@   ensures C13/configured-as-given: !(c == nil || t <= 0) ==> err == nil && s != nil && s.eventChan == c && s.timeoutDuration == t

// Trace events: "send" a0=channel a1=message; "recv-done" a0=context; "recv-timer" a0=timer channel.
//@ func (*ChannelSink).Process(ctx, e) (out, err)
//@   requires c != nil
//@   ensures C13/sinks-forward-nothing: out == nil
//@   ensures C13/exactly-one-arm-fires: ev_n == old(ev_n) + 1
//@   ensures C13/success-iff-the-very-event-was-handed-over: (err == nil) <==> (ev_kind(old(ev_n)) == "send" && ev_a(old(ev_n), 0) == c.eventChan && ev_a(old(ev_n), 1) == e)
//@   ensures C13/context-error-when-the-context-is-done: ev_kind(old(ev_n)) == "recv-done" ==> ctxdone(ctx) && err != nil && ev_a(old(ev_n), 0) == valof(ctx)
//@   ensures C13/timeout-error-when-the-timer-fires: ev_kind(old(ev_n)) == "recv-timer" ==> err != nil
//@   ensures C13/no-other-outcome: ev_kind(old(ev_n)) == "send" || ev_kind(old(ev_n)) == "recv-done" || ev_kind(old(ev_n)) == "recv-timer"
