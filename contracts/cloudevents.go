//go:build verif

// Contracts for package cloudevents, checked by /verif/govc (comment-only file; see /verif/DESIGN.md).

package cloudevents

// The encoded document is an uninterpreted function of the indent and the cloudevent's ten members, whose JSON
// names are part of the function's identity (the model of json.Encoder.Encode derives them from the struct tags).

//@ type FormatterFilter immutable Source, Schema, Format, Predicate, SignEventTypes
//@ type FormatterFilter guarded_by l: Signer

// CloudEvents 1.0 names the content-type attribute "datacontenttype"; the struct tag spells it "datacontentype".
// The pinned tests pin the misspelt name, so this is recorded as a known finding (see /verif/known_findings.json).
//@ type Event jsonmembers C18/spec-member-names: id, source, specversion, type, data?, datacontenttype?, dataschema?, time?, serialized?, serialized_hmac?

// The package's format names are variables; they are assumed to hold their initial values.
//@ pure formatVarsIntact() bool = FormatJSON == "cloudevents-json" && FormatText == "cloudevents-text" && FormatUnspecified == ""

//@ iface ID.ID() (s)
//@   pureeffect
//@ iface Data.Data() (d)
//@   pureeffect

//@ functype Signer(ctx, b) (sig, err)
//@   requires C12/callback-free: cbfree()
//@   assigns ctxdone

//@ functype FormatterFilter.Predicate(ctx, cloudevent) (keep, err)
//@   requires C12/callback-free: cbfree()
//@   assigns ctxdone

//@ func (Format).validate() (err)
//@   requires formatVarsIntact()
//@   assigns nothing
//@   ensures C18/known-formats-only: (err == nil) <==> (f == "cloudevents-json" || f == "cloudevents-text" || f == "")

//@ func (Format).convertToDataContentType() (s)
//@   requires formatVarsIntact()
//@   assigns nothing
//@   ensures C18/content-type-per-format: ((f == "cloudevents-json" || f == "") ==> s == "application/cloudevents") && (!(f == "cloudevents-json" || f == "") ==> s == "text/plain")

//@ pure validConfig(f *FormatterFilter) bool = f != nil && f.Source != nil && uf("url.String", f.Source) != "" && (f.Format == "cloudevents-json" || f.Format == "cloudevents-text" || f.Format == "") && (f.Schema != nil ==> uf("url.String", f.Schema) != "")

//@ func (*FormatterFilter).validate() (err)
//@   requires formatVarsIntact()
//@   assigns nothing
//@   ensures C18/invalid-configuration-rejected: (err == nil) <==> validConfig(f)

//@ func (*FormatterFilter).Rotate(s) (err)
//@   requires f != nil && held(f.l) == 0
//@   ensures C19/the-signer-is-replaced-in-one-exclusive-critical-section: held(f.l) == 0 && acquisitions(f.l) == old(acquisitions(f.l)) + ((s != nil) ? 1 : 0)
//@   ensures C18/nil-signer-rejected: (s == nil) ==> err != nil && f.Signer == old(f.Signer)
//@   ensures C18/signer-replaced: (s != nil) ==> err == nil && f.Signer == s

//@ pure listedForSigning(f *FormatterFilter, t string) bool = exists i int :: 0 <= i && i < len(f.SignEventTypes) && f.SignEventTypes[i] == t

//@ pure docOf(indent string, e *Event) string = uf("json{id,source,specversion,type,data?,datacontentype?,dataschema?,time?,serialized?,serialized_hmac?}", indent, e.ID, e.Source, e.SpecVersion, e.Type, tagof(e.Data), valof(e.Data), e.DataContentType, e.DataSchema, e.Time, e.Serialized, e.SerializedHmac)

//@ func (*FormatterFilter).sign(ctx, e, enc, buf) (err)
//@   requires f != nil && (enc != nil && buf != nil ==> encWriter(enc) == ref(buf))
//@   requires held(f.l) == 0
//@   requires C12/callback-free: cbfree()
//@   assigns ev, ctxdone, Event.Serialized, Event.SerializedHmac, bytes, held, lockacq
//@   ensures C19/the-signer-is-read-once-under-the-lock-and-called-outside-it: held(f.l) == 0 && (e != nil && enc != nil && buf != nil ==> acquisitions(f.l) == old(acquisitions(f.l)) + 1)
//@   ensures locks-restored: unchanged("held")
//@   ensures C18/missing-argument-is-an-error-without-effect: (e == nil || enc == nil || buf == nil) ==> err != nil && ev_n == old(ev_n)
//@   ensures C18/unlisted-types-and-missing-signer-never-sign: e != nil && enc != nil && buf != nil && !(f.Signer != nil && listedForSigning(f, e.Type)) ==> err == nil && ev_n == old(ev_n) && calls("fn:Signer") == old(calls("fn:Signer")) && e.Serialized == old(e.Serialized) && e.SerializedHmac == old(e.SerializedHmac) && content(bufBytes(buf)) == old(content(bufBytes(buf)))
//@   ensures C18/listed-types-are-signed-over-the-unsigned-document: e != nil && enc != nil && buf != nil && f.Signer != nil && listedForSigning(f, e.Type) ==> calls("fn:Signer") == old(calls("fn:Signer")) + 1 && ev_kind(old(ev_n)) == "callfn:Signer" && ev_a(old(ev_n), 3) == arr(bufBytes(buf))
//@   ensures C18/sign-failure-is-an-error: e != nil && enc != nil && buf != nil && f.Signer != nil && listedForSigning(f, e.Type) && ev_a(old(ev_n), 6) != 0 ==> err != nil && e.Serialized == old(e.Serialized) && e.SerializedHmac == old(e.SerializedHmac) && content(bufBytes(buf)) == old(content(bufBytes(buf)))
//@   ensures C18/signed-document-carries-serialized-and-hmac: e != nil && enc != nil && buf != nil && f.Signer != nil && listedForSigning(f, e.Type) && ev_a(old(ev_n), 6) == 0 ==> e.Serialized == uf("base64", old(content(bufBytes(buf)))) && e.SerializedHmac == ev_a(old(ev_n), 5) && (err == nil ==> content(bufBytes(buf)) == uf("append", 0, docOf(encIndent(enc), e)))
//@   ensures C18/signer-consulted-first-and-only-once: forall i int :: old(ev_n) <= i && i < ev_n && ev_kind(i) == "callfn:Signer" ==> i == old(ev_n)
//@   ensures C18/other-members-untouched: e != nil ==> e.ID == old(e.ID) && e.Source == old(e.Source) && e.Type == old(e.Type) && e.Data == old(e.Data) && e.Time == old(e.Time)

//@ pure docOfFields(indent string, id string, source string, spec string, typ string, data interface{}, ct string, schema string, tm time.Time, ser string, hm string) string = uf("json{id,source,specversion,type,data?,datacontentype?,dataschema?,time?,serialized?,serialized_hmac?}", indent, id, source, spec, typ, tagof(data), valof(data), ct, schema, tm, ser, hm)

// Projections out of the (uninterpreted) document, so that postconditions can speak about the stored document's members.
//@ axiom unappend: forall x string :: uf("unappend", uf("append", 0, x)) == x
//@ axiom proj-id: forall i string, id string, s string, sp string, t string, dt int, dv int, ct string, sc string, tm time.Time, se string, h string :: uf("proj.id", uf("json{id,source,specversion,type,data?,datacontentype?,dataschema?,time?,serialized?,serialized_hmac?}", i, id, s, sp, t, dt, dv, ct, sc, tm, se, h)) == id && uf("proj.ser", uf("json{id,source,specversion,type,data?,datacontentype?,dataschema?,time?,serialized?,serialized_hmac?}", i, id, s, sp, t, dt, dv, ct, sc, tm, se, h)) == se && uf("proj.hm", uf("json{id,source,specversion,type,data?,datacontentype?,dataschema?,time?,serialized?,serialized_hmac?}", i, id, s, sp, t, dt, dv, ct, sc, tm, se, h)) == h
//@ pure storedDoc(f *FormatterFilter, e *eventlogger.Event) string = uf("unappend", content(e.Formatted[storeKey(f)]))

//@ pure storeKey(f *FormatterFilter) string = (f.Format == "cloudevents-text") ? "cloudevents-text" : "cloudevents-json"
//@ pure docIndent(f *FormatterFilter) string = (f.Format == "cloudevents-text") ? "  " : ""
//@ pure docContentType(f *FormatterFilter) string = (f.Format == "cloudevents-text") ? "text/plain" : "application/cloudevents"
//@ pure docSchema(f *FormatterFilter) string = (f.Schema != nil) ? uf("url.String", f.Schema) : ""
//@ pure docData(p interface{}) interface{} = typeis(p, Data) ? purecall("Data.Data", p, "iface") : p

//@ func (*FormatterFilter).Process(ctx, e) (out, err)
//@   requires formatVarsIntact() && (e != nil ==> held(e.l) == 0)
//@   requires f != nil && held(f.l) == 0
//@   requires C12/callback-free: cbfree()
//@   ensures C19/unlocked: held(f.l) == 0
//@   ensures C18/invalid-configuration-rejected: !validConfig(f) ==> err != nil && out == nil && ev_n == old(ev_n)
//@   ensures C18/missing-event-rejected: validConfig(f) && e == nil ==> err != nil && out == nil
//@   ensures C18/empty-id-rejected: validConfig(f) && e != nil && typeis(e.Payload, ID) && purecall("ID.ID", e.Payload) == "" ==> err != nil && out == nil && calls("fn:Signer") == old(calls("fn:Signer"))
//@   ensures C18/only-this-event-is-forwarded: out == nil || (out == e && err == nil)
//@   ensures C18+C19/forwarded-event-carries-the-cloudevent: out != nil ==> (storeKey(f) in e.Formatted) && content(e.Formatted[storeKey(f)]) == uf("append", 0, docOfFields(docIndent(f), uf("proj.id", storedDoc(f, e)), uf("url.String", f.Source), "1.0", e.Type, docData(e.Payload), docContentType(f), docSchema(f), e.CreatedAt, uf("proj.ser", storedDoc(f, e)), uf("proj.hm", storedDoc(f, e))))
//@   ensures C18/id-is-the-payloads-or-generated-and-never-empty: out != nil ==> uf("proj.id", storedDoc(f, e)) != "" && (typeis(e.Payload, ID) ==> uf("proj.id", storedDoc(f, e)) == purecall("ID.ID", e.Payload))
//@   ensures C18/listed-types-are-signed-over-the-unsigned-document: out != nil && f.Signer != nil && listedForSigning(f, e.Type) ==> calls("fn:Signer") == old(calls("fn:Signer")) + 1 && uf("proj.ser", storedDoc(f, e)) == uf("base64", uf("append", 0, docOfFields(docIndent(f), uf("proj.id", storedDoc(f, e)), uf("url.String", f.Source), "1.0", e.Type, docData(e.Payload), docContentType(f), docSchema(f), e.CreatedAt, "", "")))
//@   ensures C18/unlisted-types-are-never-signed: out != nil && !(f.Signer != nil && listedForSigning(f, e.Type)) ==> calls("fn:Signer") == old(calls("fn:Signer")) && uf("proj.ser", storedDoc(f, e)) == "" && uf("proj.hm", storedDoc(f, e)) == ""
//@   ensures C18/sign-failure-not-forwarded: (exists i int :: old(ev_n) <= i && i < ev_n && ev_kind(i) == "callfn:Signer" && ev_a(i, 6) != 0) ==> out == nil && err != nil
//@   ensures C18/event-itself-untouched: e != nil ==> e.Type == old(e.Type) && e.Payload == old(e.Payload) && e.CreatedAt == old(e.CreatedAt)
//@   ensures unlocked: unchanged("held")
