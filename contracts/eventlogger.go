//go:build verif

// Contracts for package eventlogger, checked by /verif/govc (comment-only file; see /verif/DESIGN.md).

package eventlogger

//@ func (Status).getError(ctxErr, threshold, thresholdSinks) (err)
//@   assigns nothing
//@   ensures C02/err-iff-below-threshold: (err == nil) <==> (len(s.complete) >= threshold && len(s.completeSinks) >= thresholdSinks)
//@   ensures C02/err-wraps-ctx: err != nil && ctxErr != nil ==> wraps(err, ctxErr)

//@ type Broker guarded_by lock: nodes, graphs
//@ type Broker callback_free lock
//@ type Broker exempt clock: StopTimeAt is documented test-only and not in any property's call list
//@ type graph guarded_by thresholdLock: successThreshold, successThresholdSinks
//@ type nodeUsage guarded_by Broker.lock: node, referenceCount, registrationPolicy

//@ pure wfGraphs(b *Broker) bool = b.graphs != nil && (forall t1 EventType, t2 EventType :: (t1 in b.graphs) && (t2 in b.graphs) && t1 != t2 ==> b.graphs[t1] != b.graphs[t2]) && (forall t3 EventType :: (t3 in b.graphs) ==> b.graphs[t3] != nil && allocated(b.graphs[t3]))

//@ func (*graph).thresholds() (successThreshold, successThresholdSinks)
//@   requires g != nil && held(g.thresholdLock) == 0
//@   assigns held, lockacq
//@   ensures C02/reads-both-under-lock: successThreshold == g.successThreshold && successThresholdSinks == g.successThresholdSinks
//@   ensures unchanged("held") && onlychanged("lockacq", g.thresholdLock)

//@ func (*Broker).SetSuccessThreshold(t, successThreshold) (err)
//@   requires b != nil && noLocksHeld() && wfGraphs(b)
//@   ensures C02/reject: (t == "" || successThreshold < 0) ==> err != nil && (forall g *graph :: old(allocated(g)) ==> g.successThreshold == old(g.successThreshold)) && (forall u EventType :: (u in b.graphs) == old(u in b.graphs))
//@   ensures C02/set: !(t == "" || successThreshold < 0) ==> err == nil && (t in b.graphs) && b.graphs[t].successThreshold == successThreshold
//@   ensures C02/other-types-untouched: forall u EventType :: u != t && old(u in b.graphs) ==> (u in b.graphs) && b.graphs[u] == old(b.graphs[u]) && b.graphs[u].successThreshold == old(b.graphs[u].successThreshold)
//@   ensures C02/other-threshold-untouched: forall g *graph :: old(allocated(g)) ==> g.successThresholdSinks == old(g.successThresholdSinks)
//@   ensures C02/fresh-graph-zero-sinks: !(t == "" || successThreshold < 0) && !old(t in b.graphs) ==> b.graphs[t].successThresholdSinks == 0
//@   ensures wf: wfGraphs(b)
//@   ensures unlocked: noLocksHeld()
//@   ensures C04+C07/single-critical-section: acquisitions(b.lock) <= old(acquisitions(b.lock)) + 1

//@ func (*Broker).SuccessThreshold(t) (n, ok)
//@   requires b != nil && noLocksHeld() && wfGraphs(b)
//@   ensures C02/reads-back: ok == (t in b.graphs) && (ok ==> n == b.graphs[t].successThreshold) && (!ok ==> n == 0)
//@   ensures unlocked: noLocksHeld()
//@   ensures C04+C07/single-critical-section: acquisitions(b.lock) <= old(acquisitions(b.lock)) + 1

//@ func (*Broker).SetSuccessThresholdSinks(t, successThresholdSinks) (err)
//@   requires b != nil && noLocksHeld() && wfGraphs(b)
//@   ensures C02/reject: (t == "" || successThresholdSinks < 0) ==> err != nil && (forall g *graph :: old(allocated(g)) ==> g.successThresholdSinks == old(g.successThresholdSinks)) && (forall u EventType :: (u in b.graphs) == old(u in b.graphs))
//@   ensures C02/set: !(t == "" || successThresholdSinks < 0) ==> err == nil && (t in b.graphs) && b.graphs[t].successThresholdSinks == successThresholdSinks
//@   ensures C02/other-types-untouched: forall u EventType :: u != t && old(u in b.graphs) ==> (u in b.graphs) && b.graphs[u] == old(b.graphs[u]) && b.graphs[u].successThresholdSinks == old(b.graphs[u].successThresholdSinks)
//@   ensures C02/other-threshold-untouched: forall g *graph :: old(allocated(g)) ==> g.successThreshold == old(g.successThreshold)
//@   ensures C02/fresh-graph-zero-threshold: !(t == "" || successThresholdSinks < 0) && !old(t in b.graphs) ==> b.graphs[t].successThreshold == 0
//@   ensures wf: wfGraphs(b)
//@   ensures unlocked: noLocksHeld()
//@   ensures C04+C07/single-critical-section: acquisitions(b.lock) <= old(acquisitions(b.lock)) + 1

//@ func (*Broker).SuccessThresholdSinks(t) (n, ok)
//@   requires b != nil && noLocksHeld() && wfGraphs(b)
//@   ensures C02/reads-back: ok == (t in b.graphs) && (ok ==> n == b.graphs[t].successThresholdSinks) && (!ok ==> n == 0)
//@   ensures unlocked: noLocksHeld()
//@   ensures C04+C07/single-critical-section: acquisitions(b.lock) <= old(acquisitions(b.lock)) + 1

// ---- registration options ----

//@ pure validPolicy(p RegistrationPolicy) bool = p == AllowOverwrite || p == DenyOverwrite

//@ functype Option(o) (err)
//@   closedworld
//@   requires o != nil && validPolicy(o.withPipelineRegistrationPolicy) && validPolicy(o.withNodeRegistrationPolicy)
//@   assigns options.withPipelineRegistrationPolicy, options.withNodeRegistrationPolicy
//@   ensures validPolicy(o.withPipelineRegistrationPolicy) && validPolicy(o.withNodeRegistrationPolicy)
//@   ensures forall p *options :: p != o ==> p.withPipelineRegistrationPolicy == old(p.withPipelineRegistrationPolicy) && p.withNodeRegistrationPolicy == old(p.withNodeRegistrationPolicy)

//@ func WithPipelineRegistrationPolicy$1(o) (err)
//@   implements Option
//@   ensures C07/valid-policy-stored: validPolicy(policy) ==> err == nil && o.withPipelineRegistrationPolicy == policy && o.withNodeRegistrationPolicy == old(o.withNodeRegistrationPolicy)
//@   ensures C07/invalid-policy-rejected: !validPolicy(policy) ==> err != nil && o.withPipelineRegistrationPolicy == old(o.withPipelineRegistrationPolicy) && o.withNodeRegistrationPolicy == old(o.withNodeRegistrationPolicy)

//@ func WithNodeRegistrationPolicy$1(o) (err)
//@   implements Option
//@   ensures C07/valid-policy-stored: validPolicy(policy) ==> err == nil && o.withNodeRegistrationPolicy == policy && o.withPipelineRegistrationPolicy == old(o.withPipelineRegistrationPolicy)
//@   ensures C07/invalid-policy-rejected: !validPolicy(policy) ==> err != nil && o.withPipelineRegistrationPolicy == old(o.withPipelineRegistrationPolicy) && o.withNodeRegistrationPolicy == old(o.withNodeRegistrationPolicy)

//@ func getOpts(opt) (opts, err)
//@   assigns nothing
//@   ensures C07/options-valid: err == nil ==> validPolicy(opts.withPipelineRegistrationPolicy) && validPolicy(opts.withNodeRegistrationPolicy)
//@   ensures C07/default-allow: len(opt) == 0 ==> err == nil && opts.withPipelineRegistrationPolicy == AllowOverwrite && opts.withNodeRegistrationPolicy == AllowOverwrite
//@   loop 1 invariant validPolicy(opts.withPipelineRegistrationPolicy) && validPolicy(opts.withNodeRegistrationPolicy) && (len(opt) == 0 ==> opts.withPipelineRegistrationPolicy == AllowOverwrite && opts.withNodeRegistrationPolicy == AllowOverwrite)

// ---- node registry ----

//@ pure wfNodes(b *Broker) bool = b.nodes != nil && !("" in b.nodes) && (forall i NodeID :: (i in b.nodes) ==> b.nodes[i] != nil && allocated(b.nodes[i]) && validPolicy(b.nodes[i].registrationPolicy) && b.nodes[i].referenceCount >= 0) && (forall i NodeID, j NodeID :: (i in b.nodes) && (j in b.nodes) && i != j ==> b.nodes[i] != b.nodes[j])

//@ pure nodesUnchanged(b *Broker) bool = (forall i NodeID :: (i in b.nodes) == old(i in b.nodes) && b.nodes[i] == old(b.nodes[i])) && (forall u *nodeUsage :: old(allocated(u)) ==> u.node == old(u.node) && u.referenceCount == old(u.referenceCount) && u.registrationPolicy == old(u.registrationPolicy))

//@ iface Closer.Close(ctx) (err)
//@   requires C12/callback-free: cbfree()
//@   assigns ctxdone

//@ iface NodeUnwrapper.Unwrap() (n)
//@   requires C12/callback-free: cbfree()
//@   assigns ctxdone

//@ func (*NodeController).Close(ctx) (err)
//@   requires nc != nil
//@   requires C12/callback-free: cbfree()
//@   assigns ev, ctxdone
//@   ensures C06/closes-at-most-once: calls("Closer.Close") <= old(calls("Closer.Close")) + 1
//@   ensures C06/error-only-from-close: err != nil ==> calls("Closer.Close") == old(calls("Closer.Close")) + 1
//@   loop 1 invariant calls("Closer.Close") == old(calls("Closer.Close"))

//@ func (*Broker).RegisterNode(id, node, opt) (err)
//@   requires b != nil && noLocksHeld() && wfNodes(b)
//@   ensures C05+C07/failure-is-noop: err != nil ==> nodesUnchanged(b)
//@   ensures C05/empty-id-rejected: id == "" ==> err != nil
//@   ensures C07/deny-is-sticky: old(id in b.nodes) && old(b.nodes[id].registrationPolicy) == DenyOverwrite ==> err != nil
//@   ensures C07/registered: err == nil ==> (id in b.nodes) && b.nodes[id].node == node && validPolicy(b.nodes[id].registrationPolicy) && (len(opt) == 0 ==> b.nodes[id].registrationPolicy == AllowOverwrite)
//@   ensures C06/count-carried-over: err == nil ==> b.nodes[id].referenceCount == (old(id in b.nodes) ? old(b.nodes[id].referenceCount) : 0)
//@   ensures C06+C07/others-untouched: (forall i NodeID :: i != id ==> (i in b.nodes) == old(i in b.nodes) && b.nodes[i] == old(b.nodes[i])) && (forall u *nodeUsage :: old(allocated(u)) ==> u.node == old(u.node) && u.referenceCount == old(u.referenceCount) && u.registrationPolicy == old(u.registrationPolicy))
//@   ensures wf: wfNodes(b)
//@   ensures unlocked: noLocksHeld()
//@   ensures C04+C07/single-critical-section: acquisitions(b.lock) <= old(acquisitions(b.lock)) + 1

//@ func (*Broker).detachNode(id, force) (node, err)
//@   requires b != nil && held(b.lock) == 2 && wfNodes(b)
//@   assigns map:map[NodeID]*nodeUsage, nodeUsage.referenceCount
//@   ensures C05/not-found-is-noop: (id == "" || !old(id in b.nodes)) ==> err != nil && node == nil && nodesUnchanged(b)
//@   ensures C06/in-use-refused: old(id in b.nodes) && old(b.nodes[id].referenceCount) > 0 && !force ==> err != nil && node == nil && nodesUnchanged(b)
//@   ensures C06/unregistered: id != "" && old(id in b.nodes) && old(b.nodes[id].referenceCount) <= 1 && (force || old(b.nodes[id].referenceCount) == 0) ==> err == nil && !(id in b.nodes) && node == old(b.nodes[id].node)
//@   ensures C06/forced-decrement: old(id in b.nodes) && old(b.nodes[id].referenceCount) > 1 && force ==> err == nil && node == nil && (id in b.nodes) && b.nodes[id] == old(b.nodes[id]) && b.nodes[id].referenceCount == old(b.nodes[id].referenceCount) - 1
//@   ensures C06/others-untouched: forall j NodeID :: j != id ==> (j in b.nodes) == old(j in b.nodes) && b.nodes[j] == old(b.nodes[j]) && (old(j in b.nodes) ==> b.nodes[j].referenceCount == old(b.nodes[j].referenceCount))
//@   ensures C06/usage-records-otherwise-untouched: forall u *nodeUsage :: old(allocated(u)) ==> u.node == old(u.node) && u.registrationPolicy == old(u.registrationPolicy) && (u != old(b.nodes[id]) ==> u.referenceCount == old(u.referenceCount))
//@   ensures still-locked: held(b.lock) == 2 && acquisitions(b.lock) == old(acquisitions(b.lock))
//@   ensures wf: wfNodes(b)

//@ func closeNode(ctx, id, node) (err)
//@   requires C12/callback-free: cbfree()
//@   assigns ev, ctxdone
//@   ensures C06/closes-at-most-once: calls("Closer.Close") <= old(calls("Closer.Close")) + 1 && (node == nil ==> err == nil && calls("Closer.Close") == old(calls("Closer.Close"))) && (err != nil ==> calls("Closer.Close") == old(calls("Closer.Close")) + 1)

// removeNode is kept for callers that already hold the lock (only the package's tests); it is not reachable
// from the exported API, so its call of closeNode with the lock held is outside C12 (see DESIGN.md).
//@ func (*Broker).removeNode(ctx, id, force) (err)
//@   requires b != nil && held(b.lock) == 2 && wfNodes(b)
//@   assigns map:map[NodeID]*nodeUsage, nodeUsage.referenceCount, ev, ctxdone
//@   ensures C05/not-found-is-noop: (id == "" || !old(id in b.nodes)) ==> err != nil && nodesUnchanged(b) && calls("Closer.Close") == old(calls("Closer.Close"))
//@   ensures C06/in-use-refused: old(id in b.nodes) && old(b.nodes[id].referenceCount) > 0 && !force ==> err != nil && nodesUnchanged(b) && calls("Closer.Close") == old(calls("Closer.Close"))
//@   ensures C06/removed-and-closed-once: id != "" && old(id in b.nodes) && old(b.nodes[id].referenceCount) <= 1 && (force || old(b.nodes[id].referenceCount) == 0) ==> !(id in b.nodes) && calls("Closer.Close") <= old(calls("Closer.Close")) + 1
//@   ensures C06/forced-decrement: old(id in b.nodes) && old(b.nodes[id].referenceCount) > 1 && force ==> err == nil && (id in b.nodes) && b.nodes[id].referenceCount == old(b.nodes[id].referenceCount) - 1 && calls("Closer.Close") == old(calls("Closer.Close"))
//@   ensures still-locked: held(b.lock) == 2

//@ func (*Broker).RemoveNode(ctx, id) (err)
//@   requires b != nil && noLocksHeld() && wfNodes(b)
//@   ensures C05/failure-is-noop: err != nil && calls("Closer.Close") == old(calls("Closer.Close")) ==> nodesUnchanged(b)
//@   ensures C06/in-use-refused: old(id in b.nodes) && old(b.nodes[id].referenceCount) > 0 ==> err != nil && nodesUnchanged(b) && calls("Closer.Close") == old(calls("Closer.Close"))
//@   ensures C06/unused-removed-and-closed-once: id != "" && old(id in b.nodes) && old(b.nodes[id].referenceCount) == 0 ==> !(id in b.nodes) && calls("Closer.Close") <= old(calls("Closer.Close")) + 1
//@   ensures C06/closes-only-what-it-unregistered: calls("Closer.Close") > old(calls("Closer.Close")) ==> old(id in b.nodes) && !(id in b.nodes) && calls("Closer.Close") == old(calls("Closer.Close")) + 1
//@   ensures C06/others-untouched: forall j NodeID :: j != id ==> (j in b.nodes) == old(j in b.nodes) && b.nodes[j] == old(b.nodes[j]) && (old(j in b.nodes) ==> b.nodes[j].referenceCount == old(b.nodes[j].referenceCount))
//@   ensures wf: wfNodes(b)
//@   ensures unlocked: noLocksHeld()
//@   ensures C04+C07/single-critical-section: acquisitions(b.lock) <= old(acquisitions(b.lock)) + 1

// ---- pipelines ----

//@ func (Pipeline).validate() (err)
//@   assigns nothing
//@   ensures C05/definition-wellformed-iff: (err == nil) <==> (p.PipelineID != "" && p.EventType != "" && len(p.NodeIDs) > 0 && (forall j int :: 0 <= j && j < len(p.NodeIDs) ==> p.NodeIDs[j] != ""))
//@   loop 1 invariant ((err == nil) <==> (p.PipelineID != "" && p.EventType != "" && len(p.NodeIDs) > 0)) && (forall j int :: 0 <= j && j <= rangeindex ==> p.NodeIDs[j] != "")

//@ type graphMap syncmap m: PipelineID -> *registeredPipeline
//@ type registeredPipeline immutable rootNode, registrationPolicy constructors RegisterPipeline
//@ type linkedNode immutable node, nodeID, next constructors linkNodes, linkNodesAndSinks

// graphMap.Range is a three-line wrapper around sync.Map.Range; it is trusted to call f once for each entry
// of the view (sequential reading of sync.Map.Range) and to stop when f returns false.
//@ func (*graphMap).Range(f)
//@   trusted
//@   iterator view(g.m)

//@ func (*graphMap).Store(id, root)
//@   requires g != nil
//@   assigns syncmap, ev
//@   ensures (id in view(g.m)) && view(g.m)[id] == root && holdsType(g.m, id, "*registeredPipeline")
//@   ensures forall k PipelineID :: k != id ==> (k in view(g.m)) == old(k in view(g.m)) && view(g.m)[k] == old(view(g.m)[k]) && holdsType(g.m, k, "*registeredPipeline") == old(holdsType(g.m, k, "*registeredPipeline"))
//@   ensures onlychanged("syncmap", g.m) && unchanged("ncall") && unchanged("ncallr")
//@   ensures C07/single-atomic-store: ev_n == old(ev_n) + 1 && ev_kind(old(ev_n)) == "mapstore" && ev_a(old(ev_n), 0) == ref(g.m) && ev_a(old(ev_n), 1) == id

//@ func (*graphMap).Delete(id)
//@   requires g != nil
//@   assigns syncmap, ev
//@   ensures !(id in view(g.m))
//@   ensures forall k PipelineID :: k != id ==> (k in view(g.m)) == old(k in view(g.m)) && view(g.m)[k] == old(view(g.m)[k]) && holdsType(g.m, k, "*registeredPipeline") == old(holdsType(g.m, k, "*registeredPipeline"))
//@   ensures onlychanged("syncmap", g.m) && unchanged("ncall") && unchanged("ncallr")
//@   ensures ev_n == old(ev_n) + 1 && ev_kind(old(ev_n)) == "mapdelete" && ev_a(old(ev_n), 0) == ref(g.m) && ev_a(old(ev_n), 1) == id

//@ func (*Broker).IsAnyPipelineRegistered(e) (found)
//@   requires b != nil && noLocksHeld() && wfGraphs(b)
//@   ensures C05/any-registered-iff: found <==> ((e in b.graphs) && (exists k PipelineID :: k in view(b.graphs[e].roots.m)))
//@   ensures unlocked: noLocksHeld()
//@   ensures C04+C07/single-critical-section: acquisitions(b.lock) <= old(acquisitions(b.lock)) + 1
//@   rangeloop 1 invariant !found && (forall k PipelineID :: !seen(1, k))

//@ func (*Broker).RemovePipeline(t, id) (err)
//@   requires b != nil && noLocksHeld() && wfGraphs(b) && wfNodes(b) && wfAllPipelines(b)
//@   ensures C05/bad-args-noop: (t == "" || id == "" || !old(t in b.graphs)) ==> err != nil && unchanged("syncmap") && nodesUnchanged(b)
//@   ensures C07/removed: !(t == "" || id == "" || !old(t in b.graphs)) ==> err == nil && !(id in view(b.graphs[t].roots.m)) && onlychanged("syncmap", b.graphs[t].roots.m) && (forall k PipelineID :: k != id ==> (k in view(b.graphs[t].roots.m)) == old(k in view(b.graphs[t].roots.m)) && view(b.graphs[t].roots.m)[k] == old(view(b.graphs[t].roots.m)[k]))
//@   ensures C06/references-released: !(t == "" || id == "" || !old(t in b.graphs)) ==> (forall x NodeID :: (x in b.nodes) ==> b.nodes[x].referenceCount == old(b.nodes[x].referenceCount) - ((old(registeredPipelineLists(b, t, id, x)) && old(b.nodes[x].referenceCount) > 0) ? 1 : 0))
//@   ensures C06/node-table-kept: (forall i NodeID :: (i in b.nodes) == old(i in b.nodes) && b.nodes[i] == old(b.nodes[i])) && (forall u *nodeUsage :: old(allocated(u)) ==> u.node == old(u.node) && u.registrationPolicy == old(u.registrationPolicy))
//@   ensures C02+C07/graphs-and-their-thresholds-kept: (forall u EventType :: (u in b.graphs) == old(u in b.graphs) && b.graphs[u] == old(b.graphs[u])) && unchanged("graph.successThreshold") && unchanged("graph.successThresholdSinks")
//@   ensures wf: wfGraphs(b) && wfNodes(b)
//@   ensures wf-typed: wfpTyped(b)
//@   ensures wf-links-a: wfpLinksA(b)
//@   ensures wf-links-b: wfpLinksB(b)
//@   ensures wf-distinct: wfpDistinct(b)
//@   ensures unlocked: noLocksHeld()
//@   ensures C04+C07/single-critical-section: acquisitions(b.lock) <= old(acquisitions(b.lock)) + 1

// ---- linked chains ----
// Ghost description of the chain built by linkNodes: root.chain[k] is the k-th linked node, root.clen the length.
//@ type linkedNode ghostfield chain map[int]*linkedNode
//@ type linkedNode ghostfield clen int

//@ pure isChain(root *linkedNode) bool = root != nil && root.clen >= 1 && root.chain[0] == root && (forall k int :: 0 <= k && k < root.clen ==> (k in root.chain) && root.chain[k] != nil && allocated(root.chain[k]) && allocated(arr(root.chain[k].next)) && (k < root.clen - 1 ==> len(root.chain[k].next) == 1 && root.chain[k].next[0] == root.chain[k+1]) && (k == root.clen - 1 ==> len(root.chain[k].next) == 0)) && (forall j int, k int :: 0 <= j && j < k && k < root.clen ==> root.chain[j] != root.chain[k])

//@ func linkNodes(nodes, ids) (root, err)
//@   assigns linkedNode.node, linkedNode.nodeID, linkedNode.next, linkedNode.chain, linkedNode.clen, elem:*linkedNode
//@   ensures C05/link-error-iff: (err != nil) <==> (len(nodes) == 0 || len(ids) == 0 || len(nodes) != len(ids))
//@   ensures C01/chain-in-order: err == nil ==> fresh(root) && isChain(root) && root.clen == len(nodes) && (forall k int :: 0 <= k && k < len(nodes) ==> fresh(root.chain[k]) && root.chain[k].node == nodes[k] && root.chain[k].nodeID == ids[k])
//@   ensures C07/existing-chains-untouched: forall n *linkedNode :: old(allocated(n)) ==> n.node == old(n.node) && n.nodeID == old(n.nodeID) && n.next == old(n.next) && n.clen == old(n.clen) && (forall k int :: (k in n.chain) == old(k in n.chain) && n.chain[k] == old(n.chain[k]))
//@   ensures C07/existing-children-untouched: oldobjects("elem:*linkedNode")
//@   ghost at loop 1 entry havoc linkedNode.chain, linkedNode.clen: root.clen == 1 && (forall k int :: (k in root.chain) == (k == 0) && (k == 0 ==> root.chain[k] == root)) && onlychanged("linkedNode.chain", root) && onlychanged("linkedNode.clen", root)
//@   ghost at loop 1 backedge havoc linkedNode.chain, linkedNode.clen: root.clen == old(root.clen) + 1 && (forall k int :: (k in root.chain) == (old(k in root.chain) || k == old(root.clen)) && root.chain[k] == (k == old(root.clen) ? cur : old(root.chain[k]))) && onlychanged("linkedNode.chain", root) && onlychanged("linkedNode.clen", root)
//@   loop 1 invariant fresh(root) && root.clen == rangeindex + 2 && cur == root.chain[rangeindex + 1] && len(nodes) == len(ids) && len(nodes) >= 1
//@   loop 1 invariant root.chain[0] == root && (forall k int :: 0 <= k && k < root.clen ==> (k in root.chain) && root.chain[k] != nil && fresh(root.chain[k]) && allocated(arr(root.chain[k].next)) && root.chain[k].node == nodes[k] && root.chain[k].nodeID == ids[k] && (k < root.clen - 1 ==> len(root.chain[k].next) == 1 && root.chain[k].next[0] == root.chain[k+1]) && (k == root.clen - 1 ==> len(root.chain[k].next) == 0))
//@   loop 1 invariant forall j int, k int :: 0 <= j && j < k && k < root.clen ==> root.chain[j] != root.chain[k]
//@   loop 1 invariant forall n *linkedNode :: old(allocated(n)) ==> n.node == old(n.node) && n.nodeID == old(n.nodeID) && n.next == old(n.next) && n.clen == old(n.clen) && (forall k int :: (k in n.chain) == old(k in n.chain) && n.chain[k] == old(n.chain[k]))
//@   loop 1 invariant oldobjects("elem:*linkedNode")

//@ iface Node.Type() (t)
//@   pureeffect

//@ pure isFormatterLike(n Node) bool = nodeType(n) == NodeTypeFormatter || nodeType(n) == NodeTypeFormatterFilter

// doValidate is verified for the chains linkNodes builds: (root, k) locate `node` in its chain.
//@ func (*graph).doValidate(parent, node) (err)
//@   ghostparam root *linkedNode, k int
//@   assigns nothing
//@   requires isChain(root) && 0 <= k && k < root.clen && node == root.chain[k] && (k == 0 ==> parent == nil) && (k > 0 ==> parent == root.chain[k-1])
//@   requires forall j int :: 0 <= j && j < root.clen ==> root.chain[j].node != nil
//@   ensures C05/accept-iff-formatter-then-sink: (err == nil) <==> (root.clen >= 2 && nodeType(root.chain[root.clen-1].node) == NodeTypeSink && isFormatterLike(root.chain[root.clen-2].node))
//@   ghost call (*graph).doValidate#1 with root = root, k = k + 1
//@   loop 1 invariant rangeindex >= 0 ==> (root.clen >= 2 && nodeType(root.chain[root.clen-1].node) == NodeTypeSink && isFormatterLike(root.chain[root.clen-2].node))

//@ pure nodesNonNil(b *Broker) bool = forall i NodeID :: (i in b.nodes) ==> b.nodes[i].node != nil

//@ pure acceptable(b *Broker, def Pipeline) bool = def.PipelineID != "" && def.EventType != "" && len(def.NodeIDs) >= 2 && (forall j int :: 0 <= j && j < len(def.NodeIDs) ==> def.NodeIDs[j] != "" && (def.NodeIDs[j] in b.nodes)) && nodeType(b.nodes[def.NodeIDs[len(def.NodeIDs)-1]].node) == NodeTypeSink && isFormatterLike(b.nodes[def.NodeIDs[len(def.NodeIDs)-2]].node)

//@ pure listed(root *linkedNode, id NodeID) bool = exists k int :: 0 <= k && k < root.clen && root.chain[k].nodeID == id

//@ pure registeredPipelineLists(b *Broker, t EventType, p PipelineID, x NodeID) bool = (t in b.graphs) && (p in view(b.graphs[t].roots.m)) && listed(view(b.graphs[t].roots.m)[p].rootNode, x)

//@ pure denied(b *Broker, def Pipeline) bool = (def.EventType in b.graphs) && (def.PipelineID in view(b.graphs[def.EventType].roots.m)) && view(b.graphs[def.EventType].roots.m)[def.PipelineID].registrationPolicy == DenyOverwrite

//@ func (*Broker).RegisterPipeline(def, opt) (err)
//@   requires b != nil && noLocksHeld() && wfGraphs(b) && wfNodes(b) && nodesNonNil(b) && wfAllPipelines(b)
//@   ensures C05/accepted-definition-wellformed: err == nil ==> def.PipelineID != "" && def.EventType != "" && len(def.NodeIDs) >= 2
//@   ensures C05/accepted-ids-registered: err == nil ==> (forall j int :: 0 <= j && j < len(def.NodeIDs) ==> def.NodeIDs[j] != "" && old(def.NodeIDs[j] in b.nodes))
//@   ensures C05/accepted-ends-formatter-sink: err == nil ==> nodeType(old(b.nodes[def.NodeIDs[len(def.NodeIDs)-1]].node)) == NodeTypeSink && isFormatterLike(old(b.nodes[def.NodeIDs[len(def.NodeIDs)-2]].node))
//@   ensures C07/deny-is-sticky: err == nil ==> !old(denied(b, def))
//@   ensures C05/accepts-wellformed: old(acceptable(b, def)) && !old(denied(b, def)) && len(opt) == 0 ==> err == nil
//@   ensures C05+C07/failure-is-noop: err != nil ==> nodesUnchanged(b) && ev_n == old(ev_n) && (forall u EventType :: old(u in b.graphs) ==> (u in b.graphs) && b.graphs[u] == old(b.graphs[u])) && (forall g *graph, k PipelineID :: old(allocated(g)) ==> (k in view(g.roots.m)) == old(k in view(g.roots.m)) && view(g.roots.m)[k] == old(view(g.roots.m)[k])) && (forall u EventType :: (u in b.graphs) && !old(u in b.graphs) ==> (forall k PipelineID :: !(k in view(b.graphs[u].roots.m))))
//@   ensures C07/stored-with-policy: err == nil ==> (def.EventType in b.graphs) && (def.PipelineID in view(b.graphs[def.EventType].roots.m)) && validPolicy(view(b.graphs[def.EventType].roots.m)[def.PipelineID].registrationPolicy) && (len(opt) == 0 ==> view(b.graphs[def.EventType].roots.m)[def.PipelineID].registrationPolicy == AllowOverwrite)
//@   ensures C01+C07/stored-chain-is-definition: err == nil ==> isChain(view(b.graphs[def.EventType].roots.m)[def.PipelineID].rootNode) && view(b.graphs[def.EventType].roots.m)[def.PipelineID].rootNode.clen == len(def.NodeIDs) && (forall k int :: 0 <= k && k < len(def.NodeIDs) ==> view(b.graphs[def.EventType].roots.m)[def.PipelineID].rootNode.chain[k].nodeID == def.NodeIDs[k] && view(b.graphs[def.EventType].roots.m)[def.PipelineID].rootNode.chain[k].node == old(b.nodes[def.NodeIDs[k]].node))
//@   ensures C01+C07/single-atomic-swap: err == nil ==> ev_n == old(ev_n) + 1 && ev_kind(old(ev_n)) == "mapstore" && ev_a(old(ev_n), 0) == ref(b.graphs[def.EventType].roots.m) && ev_a(old(ev_n), 1) == def.PipelineID
//@   ensures C01+C07/other-pipelines-untouched: err == nil ==> onlychanged("syncmap", b.graphs[def.EventType].roots.m) && (forall k PipelineID :: k != def.PipelineID ==> (k in view(b.graphs[def.EventType].roots.m)) == (old(def.EventType in b.graphs) && old(k in view(b.graphs[def.EventType].roots.m))) && (old(def.EventType in b.graphs) ==> view(b.graphs[def.EventType].roots.m)[k] == old(view(b.graphs[def.EventType].roots.m)[k])))
//@   ensures C07/existing-graphs-kept: forall u EventType :: old(u in b.graphs) ==> (u in b.graphs) && b.graphs[u] == old(b.graphs[u])
//@   ensures C06+C07/node-table-kept: (forall i NodeID :: (i in b.nodes) == old(i in b.nodes) && b.nodes[i] == old(b.nodes[i])) && (forall u *nodeUsage :: old(allocated(u)) ==> u.node == old(u.node) && u.registrationPolicy == old(u.registrationPolicy))
//@   ensures wf: wfGraphs(b) && wfNodes(b)
//@   ensures wf-typed: wfpTyped(b)
//@   ensures wf-links-a: wfpLinksA(b)
//@   ensures wf-links-b: wfpLinksB(b)
//@   ensures wf-distinct: wfpDistinct(b)
//@   ensures C06/failure-changes-no-count: err != nil ==> (forall u *nodeUsage :: old(allocated(u)) ==> u.referenceCount == old(u.referenceCount))
//@   ensures C06/one-reference-per-listed-node: err == nil ==> (forall x NodeID :: (x in b.nodes) ==> b.nodes[x].referenceCount == old(b.nodes[x].referenceCount) - ((old(def.EventType in b.graphs) && old(def.PipelineID in view(b.graphs[def.EventType].roots.m)) && listed(old(view(b.graphs[def.EventType].roots.m)[def.PipelineID].rootNode), x) && old(b.nodes[x].referenceCount) > 0) ? 1 : 0) + ((x in def.NodeIDs) ? 1 : 0))
//@   ensures unlocked: noLocksHeld()
//@   ensures C04+C07/single-critical-section: acquisitions(b.lock) <= old(acquisitions(b.lock)) + 1
//@   rangeloop 1 invariant pol == AllowOverwrite && !seen(1, def.PipelineID)
//@   loop 1 invariant len(nodes) == len(def.NodeIDs) && (forall j int :: 0 <= j && j <= rangeindex ==> (def.NodeIDs[j] in b.nodes) && nodes[j] == b.nodes[def.NodeIDs[j]].node)
//@   ghost call (*graph).doValidate#1 with root = root, k = 0
//@   loop 2 invariant held(b.lock) == 2 && (forall x NodeID :: visited(x) ==> (x in ranged()))
//@   loop 2 invariant forall x NodeID :: (x in b.nodes) ==> b.nodes[x].referenceCount == old(b.nodes[x].referenceCount) - (((x in replaced) && old(b.nodes[x].referenceCount) > 0) ? 1 : 0) + (visited(x) ? 1 : 0)
//@   loop 2 invariant forall u *nodeUsage :: (forall x NodeID :: (x in b.nodes) ==> b.nodes[x] != u) ==> u.referenceCount == old(u.referenceCount)

// ---- event fan-out (C01, C02, C03) ----
// Trace events used below (see DESIGN.md): "call:eventlogger.Node.Process" a0=node value a2=ctx a3=event in,
// a5=event out, a6/a7=error (tag,val); "send" a0=channel; "recv-done" a0=ctx; "wgadd" a0=wg a1=n;
// "spawn:(*graph).doProcess" a0=g a1=ctx a2=linked node a3=event a4=channel a5=wg; "wgdone" a0=wg.

//@ iface Node.Process(ctx, e) (out, err)
//@   requires C12/callback-free: cbfree()
//@   assigns ctxdone

//@ pure statusShape(s Status) bool = (len(s.Warnings) == 1 && len(s.complete) == 0 && len(s.completeSinks) == 0) || (len(s.Warnings) == 0 && len(s.complete) == 1 && (len(s.completeSinks) == 0 || (len(s.completeSinks) == 1 && s.completeSinks[0] == s.complete[0])))

//@ func (*graph).doProcess(ctx, node, e, statusChan, wg)
//@   requires node != nil && node.node != nil
//@   requires C12/callback-free: cbfree()
//@   assigns ev, ctxdone, elem:error, elem:NodeID
//@   sends statusChan: statusShape(msg) && (len(msg.Warnings) == 1 ==> tagof(msg.Warnings[0]) == ev_a(old(ev_n), 6) && valof(msg.Warnings[0]) == ev_a(old(ev_n), 7) && ev_a(old(ev_n), 6) != 0) && (len(msg.complete) == 1 ==> ev_a(old(ev_n), 6) == 0 && msg.complete[0] == node.nodeID && ((len(msg.completeSinks) == 1) <==> (nodeType(node.node) == NodeTypeSink)))
//@   ensures C01/node-invoked-once-with-given-event: calls("Node.Process") == old(calls("Node.Process")) + 1 && ev_kind(old(ev_n)) == "call:eventlogger.Node.Process" && ev_a(old(ev_n), 0) == valof(node.node) && ev_a(old(ev_n), 2) == valof(ctx) && ev_a(old(ev_n), 3) == e
//@   ensures C01+C02/traversal-ends-here: (ev_a(old(ev_n), 6) != 0 || ev_a(old(ev_n), 5) == 0 || len(node.next) == 0) ==> ev_n == old(ev_n) + 3 && ((ev_kind(old(ev_n) + 1) == "send" && ev_a(old(ev_n) + 1, 0) == statusChan) || (ev_kind(old(ev_n) + 1) == "recv-done" && ev_a(old(ev_n) + 1, 0) == valof(ctx) && ctxdone(ctx)))
//@   ensures C01/children-get-the-returned-event: ev_a(old(ev_n), 6) == 0 && ev_a(old(ev_n), 5) != 0 && len(node.next) > 0 ==> ev_n == old(ev_n) + 2 + 2 * len(node.next) && (forall k int :: 0 <= k && k < len(node.next) ==> ev_kind(old(ev_n) + 1 + 2*k) == "wgadd" && ev_a(old(ev_n) + 1 + 2*k, 0) == wg && ev_a(old(ev_n) + 1 + 2*k, 1) == 1 && ev_kind(old(ev_n) + 2 + 2*k) == "spawn:(*graph).doProcess" && ev_a(old(ev_n) + 2 + 2*k, 0) == g && ev_a(old(ev_n) + 2 + 2*k, 1) == valof(ctx) && ev_a(old(ev_n) + 2 + 2*k, 2) == node.next[k] && ev_a(old(ev_n) + 2 + 2*k, 3) == ev_a(old(ev_n), 5) && ev_a(old(ev_n) + 2 + 2*k, 4) == statusChan && ev_a(old(ev_n) + 2 + 2*k, 5) == wg)
//@   ensures C03/no-close-wait-or-bare-send: forall i int :: old(ev_n) <= i && i < ev_n ==> ev_kind(i) != "close" && ev_kind(i) != "wgwait" && ev_kind(i) != "send-bare"
//@   ensures C03/done-signalled-last-exactly-once: ev_kind(ev_n - 1) == "wgdone" && ev_a(ev_n - 1, 0) == wg && (forall i int :: old(ev_n) <= i && i < ev_n - 1 ==> ev_kind(i) != "wgdone")
//@   loop 1 invariant len(node.next) > 0 && ev_a(old(ev_n), 6) == 0 && ev_a(old(ev_n), 5) != 0 && e == ev_a(old(ev_n), 5) && ev_n == old(ev_n) + 1 + 2 * (rangeindex + 1) && calls("Node.Process") == old(calls("Node.Process")) + 1 && ev_kind(old(ev_n)) == "call:eventlogger.Node.Process" && ev_a(old(ev_n), 0) == valof(node.node) && ev_a(old(ev_n), 2) == valof(ctx) && ev_a(old(ev_n), 3) == old(e)
//@   loop 1 invariant forall k int :: 0 <= k && k <= rangeindex ==> ev_kind(old(ev_n) + 1 + 2*k) == "wgadd" && ev_a(old(ev_n) + 1 + 2*k, 0) == wg && ev_a(old(ev_n) + 1 + 2*k, 1) == 1 && ev_kind(old(ev_n) + 2 + 2*k) == "spawn:(*graph).doProcess" && ev_a(old(ev_n) + 2 + 2*k, 0) == g && ev_a(old(ev_n) + 2 + 2*k, 1) == valof(ctx) && ev_a(old(ev_n) + 2 + 2*k, 2) == node.next[k] && ev_a(old(ev_n) + 2 + 2*k, 3) == ev_a(old(ev_n), 5) && ev_a(old(ev_n) + 2 + 2*k, 4) == statusChan && ev_a(old(ev_n) + 2 + 2*k, 5) == wg
//@   loop 1 invariant forall i int :: old(ev_n) < i && i < ev_n ==> ev_kind(i) == "wgadd" || ev_kind(i) == "spawn:(*graph).doProcess"

//@ pure wfRoots(g *graph) bool = forall k PipelineID :: (k in view(g.roots.m)) ==> view(g.roots.m)[k] != nil && view(g.roots.m)[k].rootNode != nil && view(g.roots.m)[k].rootNode.node != nil

//@ func (*graph).process$1$1(_, pipeline) (cont)
//@   requires g != nil && pipeline != nil && pipeline.rootNode != nil && pipeline.rootNode.node != nil
//@   requires C12/callback-free: cbfree()
//@   assigns ev, ctxdone, elem:error, elem:NodeID
//@   ensures C01/stops-only-when-cancelled: !cont ==> ctxdone(ctx) && calls("Node.Process") == old(calls("Node.Process"))
//@   ensures C01/starts-root-with-the-sent-event: cont ==> calls("Node.Process") == old(calls("Node.Process")) + 1 && ev_kind(old(ev_n)) == "wgadd" && ev_a(old(ev_n), 0) == wg && ev_a(old(ev_n), 1) == 1 && ev_kind(old(ev_n) + 1) == "call:eventlogger.Node.Process" && ev_a(old(ev_n) + 1, 0) == valof(pipeline.rootNode.node) && ev_a(old(ev_n) + 1, 2) == valof(ctx) && ev_a(old(ev_n) + 1, 3) == e
//@   ensures C03/no-close-wait-or-bare-send: forall i int :: old(ev_n) <= i && i < ev_n ==> ev_kind(i) != "close" && ev_kind(i) != "wgwait" && ev_kind(i) != "send-bare"

//@ func (*graph).process$1()
//@   requires g != nil && wfRoots(g)
//@   requires C12/callback-free: cbfree()
//@   assigns ev, ctxdone, elem:error, elem:NodeID
//@   ensures C03/waits-for-all-then-closes-once: ev_n >= old(ev_n) + 2 && ev_kind(ev_n - 2) == "wgwait" && ev_a(ev_n - 2, 0) == wg && ev_kind(ev_n - 1) == "close" && ev_a(ev_n - 1, 0) == statusChan && (forall i int :: old(ev_n) <= i && i < ev_n - 2 ==> ev_kind(i) != "close" && ev_kind(i) != "wgwait" && ev_kind(i) != "send-bare")
//@   rangeloop 1 invariant forall i int :: old(ev_n) <= i && i < ev_n ==> ev_kind(i) != "close" && ev_kind(i) != "wgwait" && ev_kind(i) != "send-bare"

//@ func (*graph).process(ctx, e) (status, err)
//@   requires g != nil && noLocksHeld()
//@   requires C12/callback-free: cbfree()
//@   assigns ev, ctxdone, elem:error, elem:NodeID, box:chan Status, box:*graph, box:context.Context, box:*Event, box:sync.WaitGroup
//@   sends statusChan: statusShape(msg)
//@   ensures C03/exactly-one-goroutine-started: ev_kind(old(ev_n)) == "spawn:(*graph).process$1" && ev_a(old(ev_n), 0) == g && ev_a(old(ev_n), 1) == valof(ctx) && ev_a(old(ev_n), 3) == e
//@   ensures C03/collector-only-receives: forall i int :: old(ev_n) < i && i < ev_n ==> ev_kind(i) == "recv" || ev_kind(i) == "recv-done"
//@   ensures C02/entries-never-invented: len(status.Warnings) + len(status.complete) == received(ev_a(old(ev_n), 4)) && len(status.completeSinks) <= len(status.complete)
//@   ensures C02/error-iff-below-thresholds: (err == nil) <==> (len(status.complete) >= g.successThreshold && len(status.completeSinks) >= g.successThresholdSinks)
//@   ensures C02/error-wraps-context-error: err != nil && ctxdone(ctx) ==> wraps(err, ctxErr(ctx))
//@   loop 1 invariant ev_kind(old(ev_n)) == "spawn:(*graph).process$1" && ev_a(old(ev_n), 0) == g && ev_a(old(ev_n), 1) == valof(ctx) && ev_a(old(ev_n), 3) == e && ev_a(old(ev_n), 4) == statusChan && ev_n > old(ev_n)
//@   loop 1 invariant forall i int :: old(ev_n) < i && i < ev_n ==> ev_kind(i) == "recv" || ev_kind(i) == "recv-done"
//@   loop 1 invariant len(status.Warnings) + len(status.complete) == received(statusChan) && len(status.completeSinks) <= len(status.complete)

//@ func (*Broker).Send(ctx, t, payload) (status, err)
//@   requires b != nil && noLocksHeld() && wfGraphs(b)
//@   ensures C01/unknown-type-delivers-nothing: !old(t in b.graphs) ==> err != nil && ev_n == old(ev_n)
//@   ensures C01/event-carries-type-and-payload: old(t in b.graphs) ==> ev_kind(old(ev_n)) == "spawn:(*graph).process$1" && ev_a(old(ev_n), 0) == old(b.graphs[t]) && ev_a(old(ev_n), 1) == valof(ctx) && (forall E *Event :: E == ev_a(old(ev_n), 3) ==> fresh(E) && E.Type == t && E.Payload == payload && E.Formatted != nil && len(E.Formatted) == 0)
//@   ensures unlocked: noLocksHeld()
//@   ensures C04+C07/single-critical-section: acquisitions(b.lock) <= old(acquisitions(b.lock)) + 1

// ---- Reopen (C20) ----

//@ iface Node.Reopen() (err)
//@   requires C12/callback-free: cbfree()
//@   assigns ctxdone

//@ pure chainNodesNonNil(root *linkedNode) bool = forall j int :: 0 <= j && j < root.clen ==> root.chain[j].node != nil

//@ pure wfPipelines(g *graph) bool = forall p PipelineID :: (p in view(g.roots.m)) ==> holdsType(g.roots.m, p, "*registeredPipeline") && view(g.roots.m)[p] != nil && isChain(view(g.roots.m)[p].rootNode) && chainNodesNonNil(view(g.roots.m)[p].rootNode)

//@ func (*graph).doReopen(ctx, node) (err)
//@   ghostparam root *linkedNode, k int
//@   requires isChain(root) && chainNodesNonNil(root) && 0 <= k && k < root.clen && node == root.chain[k]
//@   requires C12/callback-free: cbfree()
//@   assigns ev, ctxdone
//@   ensures C20/nil-means-rest-of-chain-reopened: err == nil ==> (forall j int :: k <= j && j < root.clen ==> newCallsOn("Node.Reopen", root.chain[j].node) > 0)
//@   ensures C20/error-is-a-node-failure: err != nil ==> (exists i int :: old(ev_n) <= i && i < ev_n && ev_kind(i) == "call:eventlogger.Node.Reopen" && ev_a(i, 5) == tagof(err) && ev_a(i, 6) == valof(err))
//@   ensures C20/failure-is-reported: forall i int :: old(ev_n) <= i && i < ev_n && ev_kind(i) == "call:eventlogger.Node.Reopen" && ev_a(i, 5) != 0 ==> err != nil && tagof(err) == ev_a(i, 5) && valof(err) == ev_a(i, 6)
//@   ghost call (*graph).doReopen#1 with root = root, k = k + 1
//@   loop 1 invariant (forall i int :: old(ev_n) <= i && i < ev_n && ev_kind(i) == "call:eventlogger.Node.Reopen" ==> ev_a(i, 5) == 0) && newCallsOn("Node.Reopen", root.chain[k].node) > 0 && (rangeindex >= 0 ==> (forall j int :: k < j && j < root.clen ==> newCallsOn("Node.Reopen", root.chain[j].node) > 0))

//@ pure carries(err error, t int, v int) bool = (tagof(err) == t && valof(err) == v) || wraps(err, errOf(t, v))

//@ func (*graph).reopen(ctx) (err)
//@   requires g != nil && wfPipelines(g)
//@   requires C12/callback-free: cbfree()
//@   assigns ev, ctxdone, multierror, box:*multierror.Error
//@   ensures C20/nil-means-every-pipeline-reopened: err == nil ==> (forall p PipelineID, j int :: (p in view(g.roots.m)) && 0 <= j && j < view(g.roots.m)[p].rootNode.clen ==> newCallsOn("Node.Reopen", view(g.roots.m)[p].rootNode.chain[j].node) > 0)
//@   ensures C20/failure-is-reported-and-carried: forall i int :: old(ev_n) <= i && i < ev_n && ev_kind(i) == "call:eventlogger.Node.Reopen" && ev_a(i, 5) != 0 ==> err != nil && carries(err, ev_a(i, 5), ev_a(i, 6))
//@   ghost call (*graph).doReopen#1 with root = pipeline.rootNode, k = 0
//@   rangeloop 1 invariant errors == nil ==> (forall p PipelineID, j int :: seen(1, p) && 0 <= j && j < view(g.roots.m)[p].rootNode.clen ==> newCallsOn("Node.Reopen", view(g.roots.m)[p].rootNode.chain[j].node) > 0)
//@   rangeloop 1 invariant forall i int :: old(ev_n) <= i && i < ev_n && ev_kind(i) == "call:eventlogger.Node.Reopen" && ev_a(i, 5) != 0 ==> errors != nil && wraps(asIface(errors), errOf(ev_a(i, 5), ev_a(i, 6)))
//@   rangeloop 1 invariant errors != nil ==> held_errors(errors) > 0

// ghost witnesses for Broker.Reopen's snapshot: position of each type's graph in the slice, and back
//@ type Broker ghostfield gpos map[EventType]int
//@ type Broker ghostfield gtyp map[int]EventType

//@ pure wfpTyped(b *Broker) bool = forall t EventType, p PipelineID :: (t in b.graphs) && (p in view(b.graphs[t].roots.m)) ==> holdsType(b.graphs[t].roots.m, p, "*registeredPipeline") && view(b.graphs[t].roots.m)[p] != nil && view(b.graphs[t].roots.m)[p].rootNode != nil && view(b.graphs[t].roots.m)[p].rootNode.clen >= 1 && view(b.graphs[t].roots.m)[p].rootNode.chain[0] == view(b.graphs[t].roots.m)[p].rootNode
//@ pure wfpLinksA(b *Broker) bool = forall t EventType, p PipelineID, k int :: (t in b.graphs) && (p in view(b.graphs[t].roots.m)) && 0 <= k && k < view(b.graphs[t].roots.m)[p].rootNode.clen ==> (k in view(b.graphs[t].roots.m)[p].rootNode.chain) && view(b.graphs[t].roots.m)[p].rootNode.chain[k] != nil && allocated(view(b.graphs[t].roots.m)[p].rootNode.chain[k]) && view(b.graphs[t].roots.m)[p].rootNode.chain[k].node != nil
//@ pure wfpLinksB(b *Broker) bool = forall t EventType, p PipelineID, k int :: (t in b.graphs) && (p in view(b.graphs[t].roots.m)) && 0 <= k && k < view(b.graphs[t].roots.m)[p].rootNode.clen ==> allocated(arr(view(b.graphs[t].roots.m)[p].rootNode.chain[k].next)) && (k < view(b.graphs[t].roots.m)[p].rootNode.clen - 1 ==> len(view(b.graphs[t].roots.m)[p].rootNode.chain[k].next) == 1 && view(b.graphs[t].roots.m)[p].rootNode.chain[k].next[0] == view(b.graphs[t].roots.m)[p].rootNode.chain[k+1]) && (k == view(b.graphs[t].roots.m)[p].rootNode.clen - 1 ==> len(view(b.graphs[t].roots.m)[p].rootNode.chain[k].next) == 0)
//@ pure wfpLinks(b *Broker) bool = wfpLinksA(b) && wfpLinksB(b)
//@ pure wfpDistinct(b *Broker) bool = forall t EventType, p PipelineID, j int, k int :: (t in b.graphs) && (p in view(b.graphs[t].roots.m)) && 0 <= j && j < k && k < view(b.graphs[t].roots.m)[p].rootNode.clen ==> view(b.graphs[t].roots.m)[p].rootNode.chain[j] != view(b.graphs[t].roots.m)[p].rootNode.chain[k]

//@ pure wfAllPipelines(b *Broker) bool = wfpTyped(b) && wfpLinks(b) && wfpDistinct(b)

//@ func (*Broker).Reopen(ctx) (err)
//@   requires b != nil && noLocksHeld() && wfGraphs(b) && wfAllPipelines(b)
//@   ensures C20/nil-means-every-node-reopened: err == nil ==> (forall t EventType, p PipelineID, j int :: (t in b.graphs) && (p in view(b.graphs[t].roots.m)) && 0 <= j && j < view(b.graphs[t].roots.m)[p].rootNode.clen ==> newCallsOn("Node.Reopen", view(b.graphs[t].roots.m)[p].rootNode.chain[j].node) > 0)
//@   ensures C20/failure-is-reported-and-carried: forall i int :: old(ev_n) <= i && i < ev_n && ev_kind(i) == "call:eventlogger.Node.Reopen" && ev_a(i, 5) != 0 ==> err != nil && carries(err, ev_a(i, 5), ev_a(i, 6))
//@   ensures unlocked: noLocksHeld()
//@   ensures C04+C07/single-critical-section: acquisitions(b.lock) <= old(acquisitions(b.lock)) + 1
//@   ghost at loop 1 backedge havoc Broker.gpos, Broker.gtyp: (forall t EventType :: ((t in b.graphs) && b.graphs[t] == g ==> b.gpos[t] == len(graphs) - 1 && b.gtyp[len(graphs) - 1] == t) && (!((t in b.graphs) && b.graphs[t] == g) ==> b.gpos[t] == old(b.gpos[t]))) && (forall a int :: a != len(graphs) - 1 ==> b.gtyp[a] == old(b.gtyp[a]))
//@   loop 1 invariant held(b.lock) == 1 && ev_n == old(ev_n)
//@   loop 1 invariant L1a: forall t EventType :: visited(t) ==> 0 <= b.gpos[t] && b.gpos[t] < len(graphs) && graphs[b.gpos[t]] == b.graphs[t]
//@   loop 1 invariant L1b: forall a int :: 0 <= a && a < len(graphs) ==> (b.gtyp[a] in b.graphs) && graphs[a] == b.graphs[b.gtyp[a]]
//@   loop 2 invariant noLocksHeld()
//@   loop 2 invariant L2a: forall t EventType :: (t in b.graphs) ==> 0 <= b.gpos[t] && b.gpos[t] < len(graphs) && graphs[b.gpos[t]] == b.graphs[t]
//@   loop 2 invariant L2b: forall a int :: 0 <= a && a < len(graphs) ==> (b.gtyp[a] in b.graphs) && graphs[a] == b.graphs[b.gtyp[a]]
//@   loop 2 invariant L2c: forall a int, p PipelineID, j int :: 0 <= a && a <= rangeindex && (p in view(graphs[a].roots.m)) && 0 <= j && j < view(graphs[a].roots.m)[p].rootNode.clen ==> newCallsOn("Node.Reopen", view(graphs[a].roots.m)[p].rootNode.chain[j].node) > 0
//@   loop 2 invariant forall i int :: old(ev_n) <= i && i < ev_n && ev_kind(i) == "call:eventlogger.Node.Reopen" ==> ev_a(i, 5) == 0

// ---- flatten / Nodes: the distinct node IDs of a linked pipeline (C06) ----
// ghost: l.fj counts the nodes popped so far; l.fwit[id] is a chain position carrying id (witness).
//@ type linkedNode ghostfield fj int
//@ type linkedNode ghostfield fwit map[NodeID]int

//@ func (*linkedNode).flatten() (flattened)
//@   requires isChain(l)
//@   assigns map:map[NodeID]struct{}, elem:*linkedNode, linkedNode.fj, linkedNode.fwit
//@   ensures C06/covers-chain: forall k int :: 0 <= k && k < l.clen ==> (l.chain[k].nodeID in flattened)
//@   ensures C06/only-chain-ids: forall id NodeID :: (id in flattened) ==> 0 <= l.fwit[id] && l.fwit[id] < l.clen && l.chain[l.fwit[id]].nodeID == id
//@   ensures result-is-new: flattened != nil && fresh(flattened)
//@   ensures frame: oldobjects("elem:*linkedNode") && oldobjects("map:map[NodeID]struct{}")
//@   ghost at loop 1 entry havoc linkedNode.fj, linkedNode.fwit: l.fj == 0
//@   ghost at loop 1 backedge havoc linkedNode.fj, linkedNode.fwit: l.fj == old(l.fj) + 1 && (forall x NodeID :: l.fwit[x] == (x == l.chain[old(l.fj)].nodeID ? old(l.fj) : old(l.fwit[x])))
//@   loop 1 invariant A: 0 <= l.fj && l.fj <= l.clen
//@   loop 1 invariant B: l.fj < l.clen ==> len(stack) == 1 && stack[0] == l.chain[l.fj]
//@   loop 1 invariant C: l.fj == l.clen ==> len(stack) == 0
//@   loop 1 invariant D: flattened != nil && fresh(flattened) && fresh(arr(stack))
//@   loop 1 invariant forall k int :: 0 <= k && k < l.fj ==> (l.chain[k].nodeID in flattened)
//@   loop 1 invariant forall id NodeID :: (id in flattened) ==> 0 <= l.fwit[id] && l.fwit[id] < l.fj && l.chain[l.fwit[id]].nodeID == id
//@   loop 1 invariant oldobjects("elem:*linkedNode") && oldobjects("map:map[NodeID]struct{}")
//@   loop 2 invariant 0 <= l.fj && l.fj < l.clen && node == l.chain[l.fj] && (rangeindex == -1 ==> len(stack) == 0) && (rangeindex >= 0 ==> len(stack) == 1 && stack[0] == node.next[0]) && flattened != nil && fresh(flattened) && fresh(arr(stack))
//@   loop 2 invariant forall k int :: 0 <= k && k <= l.fj ==> (l.chain[k].nodeID in flattened)
//@   loop 2 invariant forall id NodeID :: (id in flattened) ==> id == node.nodeID || (0 <= l.fwit[id] && l.fwit[id] < l.fj && l.chain[l.fwit[id]].nodeID == id)
//@   loop 2 invariant oldobjects("elem:*linkedNode") && oldobjects("map:map[NodeID]struct{}")

// ghost: g.npos[x] is the position of node ID x in the slice returned by Nodes (witness)
//@ type graphMap ghostfield npos map[NodeID]int

//@ func (*graphMap).Nodes(id) (ids, err)
//@   requires g != nil && ((id in view(g.m)) ==> holdsType(g.m, id, "*registeredPipeline") && view(g.m)[id] != nil && isChain(view(g.m)[id].rootNode))
//@   assigns map:map[NodeID]struct{}, elem:*linkedNode, linkedNode.fj, linkedNode.fwit, elem:NodeID, graphMap.npos, iter
//@   ensures C06/unknown-pipeline-has-no-nodes: (err != nil) <==> !(id in view(g.m))
//@   ensures C06/error-returns-nothing: err != nil ==> len(ids) == 0
//@   ensures C06/only-ids-of-the-pipeline: err == nil ==> (id in view(g.m)) && (forall a int :: 0 <= a && a < len(ids) ==> 0 <= view(g.m)[id].rootNode.fwit[ids[a]] && view(g.m)[id].rootNode.fwit[ids[a]] < view(g.m)[id].rootNode.clen && view(g.m)[id].rootNode.chain[view(g.m)[id].rootNode.fwit[ids[a]]].nodeID == ids[a])
//@   ensures C06/every-id-of-the-pipeline: err == nil ==> (forall k int :: 0 <= k && k < view(g.m)[id].rootNode.clen ==> 0 <= g.npos[view(g.m)[id].rootNode.chain[k].nodeID] && g.npos[view(g.m)[id].rootNode.chain[k].nodeID] < len(ids) && ids[g.npos[view(g.m)[id].rootNode.chain[k].nodeID]] == view(g.m)[id].rootNode.chain[k].nodeID)
//@   ensures C06/exactly-the-listed-ids: err == nil ==> (forall x NodeID :: (x in ids) <==> listed(view(g.m)[id].rootNode, x))
//@   ensures C06/each-id-once: forall a int, c int :: 0 <= a && a < c && c < len(ids) ==> ids[a] != ids[c]
//@   ensures frame: (err == nil ==> fresh(arr(ids))) && oldobjects("elem:*linkedNode") && oldobjects("map:map[NodeID]struct{}") && oldobjects("elem:NodeID")
//@   ghost at loop 1 backedge havoc graphMap.npos: forall x NodeID :: g.npos[x] == (x == k ? i - 1 : old(g.npos[x]))
//@   loop 1 invariant 0 <= i && i == produced() && i <= len(result) && fresh(arr(result)) && len(result) == len(nodes) && oldobjects("elem:NodeID")
//@   loop 1 invariant forall a int :: 0 <= a && a < i ==> visited(result[a])
//@   loop 1 invariant forall x NodeID :: visited(x) ==> (x in nodes) && 0 <= g.npos[x] && g.npos[x] < i && result[g.npos[x]] == x
//@   loop 1 invariant forall a int, c int :: 0 <= a && a < c && c < i ==> result[a] != result[c]

// ---- in-use accounting (C06) ----
// ghost: b.uses[id] is the number of registered pipelines (of any event type) that list node id. It is
// updated where a pipeline enters or leaves a graph (graphMap.Store / Delete) from the property's definition.
//@ type Broker ghostfield uses map[NodeID]int


//@ pure wfUses(b *Broker) bool = forall id NodeID :: b.uses[id] >= 0 && ((id in b.nodes) ==> b.nodes[id].referenceCount == b.uses[id]) && (b.uses[id] > 0 ==> (id in b.nodes))

//@ func (*Broker).releaseNodes(ids)
//@   requires b != nil && held(b.lock) == 2 && wfNodes(b)
//@   requires forall a int, c int :: 0 <= a && a < c && c < len(ids) ==> ids[a] != ids[c]
//@   assigns nodeUsage.referenceCount
//@   ensures C06/one-reference-released-per-listed-node: forall x NodeID :: (x in b.nodes) ==> b.nodes[x].referenceCount == old(b.nodes[x].referenceCount) - (((x in ids) && old(b.nodes[x].referenceCount) > 0) ? 1 : 0)
//@   ensures C06/unregistered-usage-untouched: forall u *nodeUsage :: (forall x NodeID :: (x in b.nodes) ==> b.nodes[x] != u) ==> u.referenceCount == old(u.referenceCount)
//@   ensures wf: wfNodes(b)
//@   loop 1 invariant forall x NodeID :: (x in b.nodes) ==> b.nodes[x].referenceCount == old(b.nodes[x].referenceCount) - (((x in ids[:rangeindex+1]) && old(b.nodes[x].referenceCount) > 0) ? 1 : 0)
//@   loop 1 invariant forall u *nodeUsage :: (forall x NodeID :: (x in b.nodes) ==> b.nodes[x] != u) ==> u.referenceCount == old(u.referenceCount)

//@ func (*Broker).detachPipelineAndNodes(t, id) (detached, nodeErr, err)
//@   requires b != nil && noLocksHeld() && wfGraphs(b) && wfNodes(b) && wfAllPipelines(b)
//@   ensures C05/failed-precondition-is-noop: err != nil ==> unchanged("syncmap") && nodesUnchanged(b)
//@   assigns syncmap, ev, map:map[NodeID]*nodeUsage, nodeUsage.referenceCount, map:map[NodeID]Node, held, lockacq, multierror, graphMap.npos, linkedNode.fj, linkedNode.fwit, elem:*linkedNode, elem:NodeID, map:map[NodeID]struct{}, iter, elem:error, elem:any
//@   ensures C05/unknown-pipeline-fails: !(old(t in b.graphs) && old(id in view(b.graphs[t].roots.m))) ==> err != nil
//@   ensures C06/closes-nothing: calls("Closer.Close") == old(calls("Closer.Close"))
//@   ensures C06/pipeline-removed: err == nil ==> !(id in view(b.graphs[t].roots.m)) && onlychanged("syncmap", b.graphs[t].roots.m) && (forall k PipelineID :: k != id ==> (k in view(b.graphs[t].roots.m)) == old(k in view(b.graphs[t].roots.m)) && view(b.graphs[t].roots.m)[k] == old(view(b.graphs[t].roots.m)[k]))
//@   ensures C06/unlisted-nodes-untouched: err == nil ==> (forall x NodeID :: !old(registeredPipelineLists(b, t, id, x)) ==> (x in b.nodes) == old(x in b.nodes) && b.nodes[x] == old(b.nodes[x]) && (old(x in b.nodes) ==> b.nodes[x].referenceCount == old(b.nodes[x].referenceCount)) && !(x in detached))
//@   ensures C06/last-reference-unregisters: err == nil ==> (forall x NodeID :: old(registeredPipelineLists(b, t, id, x)) && old(x in b.nodes) && old(b.nodes[x].referenceCount) <= 1 ==> !(x in b.nodes) && (old(b.nodes[x].node) != nil ==> (x in detached) && detached[x] == old(b.nodes[x].node)))
//@   ensures C06/shared-nodes-stay-registered: err == nil ==> (forall x NodeID :: old(registeredPipelineLists(b, t, id, x)) && old(x in b.nodes) && old(b.nodes[x].referenceCount) > 1 ==> (x in b.nodes) && b.nodes[x] == old(b.nodes[x]) && b.nodes[x].referenceCount == old(b.nodes[x].referenceCount) - 1 && !(x in detached))
//@   ensures C06/detached-were-registered: err == nil ==> (forall x NodeID :: (x in detached) ==> old(x in b.nodes) && !(x in b.nodes) && detached[x] == old(b.nodes[x].node) && detached[x] != nil)
//@   ensures C02+C07/graphs-and-their-thresholds-kept: (forall u EventType :: (u in b.graphs) == old(u in b.graphs) && b.graphs[u] == old(b.graphs[u])) && unchanged("graph.successThreshold") && unchanged("graph.successThresholdSinks")
//@   ensures wf: wfGraphs(b) && wfNodes(b)
//@   ensures wf-typed: wfpTyped(b)
//@   ensures wf-links-a: wfpLinksA(b)
//@   ensures wf-links-b: wfpLinksB(b)
//@   ensures wf-distinct: wfpDistinct(b)
//@   ensures unlocked: noLocksHeld()
//@   ensures C04+C07/single-critical-section: acquisitions(b.lock) <= old(acquisitions(b.lock)) + 1
//@   loop 1 invariant held(b.lock) == 2 && wfNodes(b) && detached != nil && fresh(detached) && calls("Closer.Close") == old(calls("Closer.Close"))
//@   loop 1 invariant forall x NodeID :: !(x in nodes[:rangeindex+1]) ==> (x in b.nodes) == old(x in b.nodes) && b.nodes[x] == old(b.nodes[x]) && (old(x in b.nodes) ==> b.nodes[x].referenceCount == old(b.nodes[x].referenceCount)) && !(x in detached)
//@   loop 1 invariant forall x NodeID :: (x in nodes[:rangeindex+1]) && old(x in b.nodes) && old(b.nodes[x].referenceCount) <= 1 ==> !(x in b.nodes) && (old(b.nodes[x].node) != nil ==> (x in detached) && detached[x] == old(b.nodes[x].node))
//@   loop 1 invariant forall x NodeID :: (x in nodes[:rangeindex+1]) && old(x in b.nodes) && old(b.nodes[x].referenceCount) > 1 ==> (x in b.nodes) && b.nodes[x] == old(b.nodes[x]) && b.nodes[x].referenceCount == old(b.nodes[x].referenceCount) - 1 && !(x in detached)
//@   loop 1 invariant forall x NodeID :: (x in detached) ==> old(x in b.nodes) && !(x in b.nodes) && detached[x] == old(b.nodes[x].node) && detached[x] != nil
//@   loop 1 invariant forall u *nodeUsage :: old(allocated(u)) ==> u.node == old(u.node) && u.registrationPolicy == old(u.registrationPolicy)

//@ func (*Broker).RemovePipelineAndNodes(ctx, t, id) (ok, err)
//@   requires b != nil && noLocksHeld() && wfGraphs(b) && wfNodes(b) && wfAllPipelines(b)
//@   ensures C02+C07/graphs-and-their-thresholds-kept: (forall u EventType :: (u in b.graphs) == old(u in b.graphs) && b.graphs[u] == old(b.graphs[u])) && unchanged("graph.successThreshold") && unchanged("graph.successThresholdSinks")
//@   ensures C05/false-is-noop: !ok ==> err != nil && unchanged("syncmap") && nodesUnchanged(b) && calls("Closer.Close") == old(calls("Closer.Close"))
//@   ensures C06/unknown-pipeline-is-false: !(t != "" && id != "" && old(t in b.graphs) && old(id in view(b.graphs[t].roots.m))) ==> !ok
//@   ensures C06/pipeline-removed: ok ==> !(id in view(b.graphs[t].roots.m)) && onlychanged("syncmap", b.graphs[t].roots.m)
//@   ensures C06/unlisted-nodes-untouched: ok ==> (forall x NodeID :: !old(registeredPipelineLists(b, t, id, x)) ==> (x in b.nodes) == old(x in b.nodes) && b.nodes[x] == old(b.nodes[x]) && (old(x in b.nodes) ==> b.nodes[x].referenceCount == old(b.nodes[x].referenceCount)))
//@   ensures C06/last-reference-unregisters: ok ==> (forall x NodeID :: old(registeredPipelineLists(b, t, id, x)) && old(x in b.nodes) && old(b.nodes[x].referenceCount) <= 1 ==> !(x in b.nodes))
//@   ensures C06/shared-nodes-stay-registered: ok ==> (forall x NodeID :: old(registeredPipelineLists(b, t, id, x)) && old(x in b.nodes) && old(b.nodes[x].referenceCount) > 1 ==> (x in b.nodes) && b.nodes[x] == old(b.nodes[x]) && b.nodes[x].referenceCount == old(b.nodes[x].referenceCount) - 1)
//@   ensures unlocked: noLocksHeld()
//@   ensures C04+C07/single-critical-section: acquisitions(b.lock) <= old(acquisitions(b.lock)) + 1
//@   loop 1 invariant noLocksHeld() && calls("Closer.Close") <= entry(calls("Closer.Close")) + produced()

// ---- Event format table (C14, C19) ----
//@ type Event guarded_by l: Formatted
//@ type Filter immutable Predicate
//@ type JSONFormatterFilter immutable Predicate

//@ func (*Event).FormattedAs(formatType, formattedValue)
//@   requires e != nil && held(e.l) == 0
//@   assigns Event.Formatted, map:map[string][]byte, held, lockacq
//@   ensures C14/last-writer-wins: e.Formatted != nil && (formatType in e.Formatted) && e.Formatted[formatType] == formattedValue
//@   ensures C14/other-formats-kept: forall k string :: k != formatType && old(e.Formatted) != nil ==> (k in e.Formatted) == old(k in e.Formatted) && e.Formatted[k] == old(e.Formatted[k])
//@   ensures C14+C19/single-critical-section: acquisitions(e.l) == old(acquisitions(e.l)) + 1
//@   ensures unlocked: unchanged("held")

//@ func (*Event).Format(formatType) (val, ok)
//@   requires e != nil && held(e.l) == 0
//@   assigns held, lockacq
//@   ensures C13+C14/reads-the-table: ok == (e.Formatted != nil && (formatType in e.Formatted)) && (ok ==> val == e.Formatted[formatType]) && (!ok ==> len(val) == 0)
//@   ensures C14+C19/single-critical-section: acquisitions(e.l) == old(acquisitions(e.l)) + 1
//@   ensures unlocked: unchanged("held")

// ---- FileSink (C08, C13, C15) ----
// Trace events: "sys:mkdirall" a0=path a1=mode a5/a6=err; "sys:openfile" a0=path a1=flags a2=mode a5=file a6/a7=err;
// "sys:chmod" a0=path a1=mode; "sys:close" a0=file a5/a6=err; "sys:rename" a0=old a1=new a5/a6=err;
// "sys:glob" a0=pattern a5=array a6=offset a7=length (the error is not recorded); "sys:remove" a0=path a5/a6=err;
// "sys:write" a0=writer a1=array a2=offset a3=length a4=writer type a5=n a6/a7=err.
//@ type FileSink guarded_by l: f, BytesWritten, LastCreated
//@ type FileSink immutable Path, FileName, Mode, MaxBytes, MaxFiles, MaxDuration, Format, TimestampOnlyOnRotate

//@ pure specialPath(fs *FileSink) bool = fs.Path == "/dev/stdout" || fs.Path == "/dev/stderr" || fs.Path == "/dev/null"
//@ pure fileExt(fs *FileSink) string = (uf("filepath.Ext", fs.FileName) == "") ? ".log" : uf("filepath.Ext", fs.FileName)
//@ pure filePattern(fs *FileSink) string = strcat(strcat(uf("strings.TrimSuffix", fs.FileName, fileExt(fs)), "-%s"), fileExt(fs))

//@ func (*FileSink).rotateEnabled() (b)
//@   requires fs != nil
//@   pureeffect
//@   ensures C15/enabled-iff-a-limit-is-set: b == (fs.MaxBytes > 0 || fs.MaxDuration != 0)

//@ func (*FileSink).fileNamePattern() (s)
//@   requires fs != nil
//@   pureeffect
//@   ensures C15/base-name-dash-timestamp-extension: s == filePattern(fs)

//@ func (*FileSink).newFileName(createTime) (s)
//@   requires fs != nil
//@   pureeffect
//@   ensures C15/plain-name-in-timestamp-only-mode-or-without-rotation: (fs.TimestampOnlyOnRotate || !(fs.MaxBytes > 0 || fs.MaxDuration != 0)) ==> s == fs.FileName
//@   ensures C15/timestamped-name-otherwise: !(fs.TimestampOnlyOnRotate || !(fs.MaxBytes > 0 || fs.MaxDuration != 0)) ==> s == sprintf1(filePattern(fs), uf("strconv.FormatInt", uf("time.UnixNano", createTime), 10))

//@ func (*FileSink).open() (err)
//@   requires fs != nil && held(fs.l) == 2
//@   assigns FileSink.f, FileSink.BytesWritten, box:time.Time, ev, ctxdone, elem:any, elem:string
//@   ensures C15/nothing-to-do-when-open-or-special: (specialPath(fs) || old(fs.f) != nil) ==> err == nil && ev_n == old(ev_n) && fs.f == old(fs.f) && fs.BytesWritten == old(fs.BytesWritten) && fs.LastCreated == old(fs.LastCreated)
//@   ensures C15/directory-created-on-demand: !(specialPath(fs) || old(fs.f) != nil) ==> ev_n > old(ev_n) && ev_kind(old(ev_n)) == "sys:mkdirall" && ev_a(old(ev_n), 0) == fs.Path && ev_a(old(ev_n), 1) == 448
//@   ensures C15/mkdir-failure-opens-nothing: !(specialPath(fs) || old(fs.f) != nil) && ev_a(old(ev_n), 5) != 0 ==> err != nil && ev_n == old(ev_n) + 1 && fs.f == nil && fs.BytesWritten == old(fs.BytesWritten) && fs.LastCreated == old(fs.LastCreated)
//@   ensures C08+C15/file-opened-for-append-with-configured-mode: !(specialPath(fs) || old(fs.f) != nil) && ev_a(old(ev_n), 5) == 0 ==> ev_n >= old(ev_n) + 2 && ev_kind(old(ev_n) + 1) == "sys:openfile" && ev_a(old(ev_n) + 1, 1) == 1089 && ev_a(old(ev_n) + 1, 2) == ((fs.Mode == 0) ? 384 : fs.Mode) && (fs.TimestampOnlyOnRotate || !(fs.MaxBytes > 0 || fs.MaxDuration != 0) ==> ev_a(old(ev_n) + 1, 0) == uf("filepath.Join2", fs.Path, fs.FileName))
//@   ensures C15/open-failure: !(specialPath(fs) || old(fs.f) != nil) && ev_a(old(ev_n), 5) == 0 && ev_a(old(ev_n) + 1, 6) != 0 ==> err != nil && ev_n == old(ev_n) + 2 && fs.f == nil && fs.BytesWritten == old(fs.BytesWritten) && fs.LastCreated == old(fs.LastCreated)
//@   ensures C15/chmod-iff-mode-configured: !(specialPath(fs) || old(fs.f) != nil) && ev_a(old(ev_n), 5) == 0 && ev_a(old(ev_n) + 1, 6) == 0 ==> fs.f == ev_a(old(ev_n) + 1, 5) && fs.f != nil && ((fs.Mode == 0) ==> ev_n == old(ev_n) + 2) && ((fs.Mode != 0) ==> ev_n == old(ev_n) + 3 && ev_kind(old(ev_n) + 2) == "sys:chmod" && ev_a(old(ev_n) + 2, 0) == ev_a(old(ev_n) + 1, 0) && ev_a(old(ev_n) + 2, 1) == fs.Mode)
//@   ensures C15/counters-reset-for-the-new-file: err == nil && !(specialPath(fs) || old(fs.f) != nil) ==> fs.f != nil && fs.BytesWritten == 0
//@   ensures C15/failure-keeps-counters: err != nil ==> fs.BytesWritten == old(fs.BytesWritten) && fs.LastCreated == old(fs.LastCreated)
//@   ensures C08/only-these-effects: forall i int :: old(ev_n) <= i && i < ev_n ==> ev_kind(i) == "sys:mkdirall" || ev_kind(i) == "sys:openfile" || ev_kind(i) == "sys:chmod"
//@   ensures other-sinks-untouched: forall o *FileSink :: o != fs ==> o.f == old(o.f) && o.BytesWritten == old(o.BytesWritten)
//@   ensures counter-stays-nonnegative: old(fs.BytesWritten) >= 0 ==> fs.BytesWritten >= 0
//@   ensures C08/writes-nothing: events("sys:write") == old(events("sys:write"))
//@   ensures still-locked: held(fs.l) == 2

//@ pure sortedListing(a ref, o int, k int) string = strAt(a, o, k)

//@ func (*FileSink).pruneFiles() (err)
//@   requires fs != nil && held(fs.l) == 2 && fs.MaxFiles >= 0
//@   assigns ev, ctxdone, elem:string, elem:any
//@   ensures C15/no-pruning-without-a-limit: (specialPath(fs) || fs.MaxFiles == 0) ==> err == nil && ev_n == old(ev_n)
//@   ensures C15/lists-only-its-own-rotated-files: !(specialPath(fs) || fs.MaxFiles == 0) ==> ev_n > old(ev_n) && ev_kind(old(ev_n)) == "sys:glob" && ev_a(old(ev_n), 0) == uf("filepath.Join2", fs.Path, sprintf1(filePattern(fs), "*"))
//@   ensures C15/keeps-the-newest-max-files: !(specialPath(fs) || fs.MaxFiles == 0) && err == nil ==> ev_n == old(ev_n) + 1 + ((ev_a(old(ev_n), 7) > fs.MaxFiles) ? (ev_a(old(ev_n), 7) - fs.MaxFiles) : 0)
//@   ensures C15/removes-oldest-first-from-the-listing: forall i int :: old(ev_n) < i && i < ev_n ==> ev_kind(i) == "sys:remove" && ev_a(i, 0) == sortedListing(ev_a(old(ev_n), 5), ev_a(old(ev_n), 6), i - old(ev_n) - 1)
//@   ensures C08/writes-nothing: events("sys:write") == old(events("sys:write"))
//@   ensures still-locked: held(fs.l) == 2
//@   loop 1 invariant held(fs.l) == 2 && 0 <= i && stale == len(matches) - fs.MaxFiles && ev_n == old(ev_n) + 1 + i && ev_kind(old(ev_n)) == "sys:glob" && ev_a(old(ev_n), 0) == uf("filepath.Join2", fs.Path, sprintf1(filePattern(fs), "*")) && ev_a(old(ev_n), 5) == arr(matches) && ev_a(old(ev_n), 6) == 0 && ev_a(old(ev_n), 7) == len(matches) && (i > 0 ==> i <= stale)
//@   loop 1 invariant forall j int :: old(ev_n) < j && j < ev_n ==> ev_kind(j) == "sys:remove" && ev_a(j, 0) == matches[j - old(ev_n) - 1]

//@ pure sizeLimitReached(fs *FileSink) bool = fs.MaxBytes > 0 && fs.BytesWritten >= fs.MaxBytes

//@ func (*FileSink).rotate() (err)
//@   requires fs != nil && held(fs.l) == 2 && fs.MaxFiles >= 0 && (!specialPath(fs) ==> fs.f != nil)
//@   assigns FileSink.f, FileSink.BytesWritten, box:time.Time, ev, ctxdone, elem:any, elem:string
//@   ensures C15/special-paths-never-rotate: specialPath(fs) ==> err == nil && ev_n == old(ev_n)
//@   ensures C15/no-rotation-unless-a-limit-is-due: !old(sizeLimitReached(fs)) && fs.MaxDuration <= 0 ==> err == nil && ev_n == old(ev_n) && fs.f == old(fs.f) && fs.BytesWritten == old(fs.BytesWritten) && fs.LastCreated == old(fs.LastCreated)
//@   ensures C15/rotates-when-the-size-limit-is-reached: !specialPath(fs) && old(sizeLimitReached(fs)) ==> ev_n > old(ev_n)
//@   ensures C08+C15/rotation-closes-the-active-file-first: ev_n > old(ev_n) ==> ev_kind(old(ev_n)) == "sys:close" && ev_a(old(ev_n), 0) == old(fs.f) && (ev_a(old(ev_n), 5) != 0 ==> err != nil && ev_n == old(ev_n) + 1 && fs.f == old(fs.f) && fs.BytesWritten == old(fs.BytesWritten))
//@   ensures C08+C15/timestamp-only-mode-renames-the-plain-file-before-pruning: ev_n > old(ev_n) && ev_a(old(ev_n), 5) == 0 && fs.TimestampOnlyOnRotate ==> ev_n >= old(ev_n) + 2 && ev_kind(old(ev_n) + 1) == "sys:rename" && ev_a(old(ev_n) + 1, 0) == uf("filepath.Join2", fs.Path, fs.FileName) && (exists ts int :: ev_a(old(ev_n) + 1, 1) == uf("filepath.Join2", fs.Path, sprintf1(filePattern(fs), uf("strconv.FormatInt", uf("time.UnixNano", ts), 10)))) && (ev_a(old(ev_n) + 1, 5) != 0 ==> err != nil && ev_n == old(ev_n) + 2)
//@   ensures C15/other-modes-never-rename: !fs.TimestampOnlyOnRotate ==> (forall i int :: old(ev_n) <= i && i < ev_n ==> ev_kind(i) != "sys:rename")
//@   ensures C08/only-these-effects: forall i int :: old(ev_n) <= i && i < ev_n ==> ev_kind(i) == "sys:close" || ev_kind(i) == "sys:rename" || ev_kind(i) == "sys:glob" || ev_kind(i) == "sys:remove" || ev_kind(i) == "sys:mkdirall" || ev_kind(i) == "sys:openfile" || ev_kind(i) == "sys:chmod"
//@   ensures C15/success-leaves-an-open-file: err == nil && !specialPath(fs) ==> fs.f != nil && (ev_n > old(ev_n) ==> fs.BytesWritten == 0)
//@   ensures other-sinks-untouched: forall o *FileSink :: o != fs ==> o.f == old(o.f) && o.BytesWritten == old(o.BytesWritten)
//@   ensures counter-stays-nonnegative: old(fs.BytesWritten) >= 0 ==> fs.BytesWritten >= 0
//@   ensures C08/writes-nothing: events("sys:write") == old(events("sys:write"))
//@   ensures still-locked: held(fs.l) == 2

//@ func (*FileSink).reopen() (err)
//@   requires fs != nil && held(fs.l) == 2
//@   assigns FileSink.f, FileSink.BytesWritten, box:time.Time, ev, ctxdone, elem:any, elem:string
//@   ensures C15/special-paths-are-not-reopened: specialPath(fs) ==> err == nil && ev_n == old(ev_n) && fs.f == old(fs.f)
//@   ensures C08/success-leaves-an-open-file: err == nil && !specialPath(fs) ==> fs.f != nil
//@   ensures C08/only-these-effects: forall i int :: old(ev_n) <= i && i < ev_n ==> ev_kind(i) == "sys:stat" || ev_kind(i) == "sys:close" || ev_kind(i) == "sys:mkdirall" || ev_kind(i) == "sys:openfile" || ev_kind(i) == "sys:chmod"
//@   ensures C15/a-new-file-starts-with-fresh-counters: err == nil && !specialPath(fs) ==> fs.BytesWritten == 0
//@   ensures other-sinks-untouched: forall o *FileSink :: o != fs ==> o.f == old(o.f) && o.BytesWritten == old(o.BytesWritten)
//@   ensures counter-stays-nonnegative: old(fs.BytesWritten) >= 0 ==> fs.BytesWritten >= 0
//@   ensures C08/writes-nothing: events("sys:write") == old(events("sys:write"))
//@   ensures still-locked: held(fs.l) == 2

//@ func (*FileSink).Reopen() (err)
//@   requires fs != nil && held(fs.l) == 0
//@   ensures C15/special-paths-are-not-reopened: specialPath(fs) ==> err == nil && ev_n == old(ev_n) && fs.f == old(fs.f)
//@   ensures C08/success-leaves-an-open-file: err == nil && !specialPath(fs) ==> fs.f != nil && fs.BytesWritten == 0
//@   ensures unlocked: unchanged("held")

//@ pure sinkFormat(fs *FileSink) string = (fs.Format == "") ? "json" : fs.Format

//@ func (*FileSink).Process(_, e) (out, err)
//@   requires fs != nil && e != nil && held(fs.l) == 0 && held(e.l) == 0 && fs.MaxFiles >= 0 && fs.BytesWritten >= 0
//@   atcall (*bytes.Reader).WriteTo#1 C08+C13+C19/written-under-the-sink-lock: held(fs.l) == 2
//@   atcall (*bytes.Reader).WriteTo#2 C08+C13+C19/rewritten-under-the-sink-lock: held(fs.l) == 2
//@   ensures C13/sinks-forward-nothing: out == nil
//@   ensures C13/dev-null-accepts-without-effect: fs.Path == "/dev/null" ==> err == nil && ev_n == old(ev_n)
//@   ensures C13/unformatted-event-is-an-error-without-effect: fs.Path != "/dev/null" && !(old(e.Formatted) != nil && old(sinkFormat(fs) in e.Formatted)) ==> err != nil && ev_n == old(ev_n)
//@   ensures C08+C13/success-means-the-configured-bytes-were-written-last-and-in-full: fs.Path != "/dev/null" && err == nil ==> ev_n > old(ev_n) && ev_kind(ev_n - 1) == "sys:write" && ev_a(ev_n - 1, 1) == arr(old(e.Formatted[sinkFormat(fs)])) && ev_a(ev_n - 1, 3) == len(old(e.Formatted[sinkFormat(fs)])) && ev_a(ev_n - 1, 5) == len(old(e.Formatted[sinkFormat(fs)])) && ev_a(ev_n - 1, 6) == 0
//@   ensures C13/special-streams-are-written-without-touching-files: (fs.Path == "/dev/stdout" || fs.Path == "/dev/stderr") ==> (forall i int :: old(ev_n) <= i && i < ev_n ==> ev_kind(i) == "sys:write") && fs.f == old(fs.f)
//@   ensures C08/writes-go-to-the-active-file: fs.Path != "/dev/null" && !specialPath(fs) && err == nil ==> ev_a(ev_n - 1, 0) == fs.f && fs.f != nil
//@   ensures C15/bytes-counted-after-a-first-successful-write: fs.Path != "/dev/null" && err == nil && events("sys:write") == old(events("sys:write")) + 1 && !(fs.Path == "/dev/stdout" || fs.Path == "/dev/stderr") ==> fs.BytesWritten >= ev_a(ev_n - 1, 5)
//@   ensures C08/at-most-two-write-attempts: events("sys:write") <= old(events("sys:write")) + 2
//@   ensures unlocked: unchanged("held")

// ---- filters and JSON formatters (C14) ----
// The encoded line is jsonLine(created_at, event_type, payload) := uf("json.line4", type, indent, fields...):
// an uninterpreted function of exactly the event's creation time, type and payload (tag, value).

//@ functype Predicate(e) (keep, err)
//@   requires C12/callback-free: cbfree()
//@   assigns ctxdone

//@ functype JSONFormatterFilter.Predicate(e) (keep, err)
//@   requires C12/callback-free: cbfree()
//@   assigns ctxdone

//@ func (*Filter).Process(ctx, e) (out, err)
//@   requires f != nil && f.Predicate != nil && e != nil
//@   requires C12/callback-free: cbfree()
//@   assigns ev, ctxdone
//@   ensures C14/predicate-consulted-once: calls("fn:Predicate") == old(calls("fn:Predicate")) + 1 && ev_n == old(ev_n) + 1 && ev_a(old(ev_n), 2) == e
//@   ensures C14/forwarded-iff-predicate-true: (err == nil && out == e) <==> (ev_a(old(ev_n), 6) == 0 && ev_a(old(ev_n), 5) == 1)
//@   ensures C14/dropped-or-error-forwards-nothing: !(ev_a(old(ev_n), 6) == 0 && ev_a(old(ev_n), 5) == 1) ==> out == nil && ((err != nil) <==> (ev_a(old(ev_n), 6) != 0))

//@ pure jsonLine(e *Event) string = uf("append", 0, uf("json{created_at,event_type,payload}", "", e.CreatedAt, e.Type, tagof(e.Payload), valof(e.Payload)))

//@ func (*JSONFormatter).Process(ctx, e) (out, err)
//@   requires e != nil && held(e.l) == 0
//@   assigns ev, Event.Formatted, map:map[string][]byte, held, lockacq, buf, enc, bytes
//@   ensures C14+C19/one-json-line-of-time-type-payload: err == nil ==> out == e && e.Formatted != nil && ("json" in e.Formatted) && content(e.Formatted["json"]) == jsonLine(e)
//@   ensures C14/unencodable-payload-forwards-nothing: err != nil ==> out == nil && e.Formatted == old(e.Formatted) && (old(e.Formatted) != nil ==> (forall k string :: (k in e.Formatted) == old(k in e.Formatted) && e.Formatted[k] == old(e.Formatted[k])))
//@   ensures C14/event-itself-untouched: e.Type == old(e.Type) && e.Payload == old(e.Payload) && e.CreatedAt == old(e.CreatedAt)
//@   ensures C14/other-formats-kept: forall k string :: k != "json" && old(e.Formatted) != nil ==> (k in e.Formatted) == old(k in e.Formatted) && e.Formatted[k] == old(e.Formatted[k])
//@   ensures unlocked: unchanged("held")

//@ func (*JSONFormatterFilter).Process(ctx, e) (out, err)
//@   requires w != nil && e != nil && held(e.l) == 0
//@   requires C12/callback-free: cbfree()
//@   assigns ev, ctxdone, Event.Formatted, map:map[string][]byte, held, lockacq, buf, enc, bytes
//@   ensures C14+C19/one-json-line-of-time-type-payload: out != nil ==> err == nil && out == e && e.Formatted != nil && ("json" in e.Formatted) && content(e.Formatted["json"]) == jsonLine(e)
//@   ensures C14/forwarded-iff-no-predicate-or-predicate-true: w.Predicate == nil ==> ((out == e && err == nil) || (out == nil && err != nil && calls("fn:JSONFormatterFilter.Predicate") == old(calls("fn:JSONFormatterFilter.Predicate"))))
//@   ensures C14/predicate-decides: calls("fn:JSONFormatterFilter.Predicate") == old(calls("fn:JSONFormatterFilter.Predicate")) + 1 ==> ((out == e && err == nil) <==> (ev_a(ev_n - 1, 6) == 0 && ev_a(ev_n - 1, 5) == 1)) && ((err != nil) <==> (ev_a(ev_n - 1, 6) != 0)) && ev_kind(ev_n - 1) == "callfn:JSONFormatterFilter.Predicate"
//@   ensures C14/nothing-forwarded-otherwise: out == nil || out == e
//@   ensures C14/event-itself-untouched: e.Type == old(e.Type) && e.Payload == old(e.Payload) && e.CreatedAt == old(e.CreatedAt)
//@   ensures unlocked: unchanged("held")
