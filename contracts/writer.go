//go:build verif

// Contracts for package writer, checked by /verif/govc (comment-only file; see /verif/DESIGN.md).

package writer

// Format and Writer are configuration: set when the sink is built, never stored to by the package (checked).
//@ type Sink immutable Format, Writer

//@ pure sinkFormat(fs *Sink) string = (fs.Format == "") ? "json" : fs.Format

//@ func (*Sink).Process(ctx, e) (out, err)
//@   requires fs != nil && held(fs.l) == 0 && (e != nil ==> held(e.l) == 0)
//@   ensures C13/sinks-forward-nothing: out == nil
//@   ensures C13/nil-writer-or-event-is-an-error-without-effect: (fs.Writer == nil || e == nil) ==> err != nil && ev_n == old(ev_n)
//@   ensures C13/unformatted-event-is-an-error-without-effect: fs.Writer != nil && e != nil && !(old(e.Formatted) != nil && old(sinkFormat(fs) in e.Formatted)) ==> err != nil && ev_n == old(ev_n)
//@   ensures C13/exactly-one-write-of-the-configured-bytes: fs.Writer != nil && e != nil && old(e.Formatted) != nil && old(sinkFormat(fs) in e.Formatted) ==> ev_n == old(ev_n) + 1 && ev_kind(old(ev_n)) == "sys:write" && ev_a(old(ev_n), 0) == valof(fs.Writer) && ev_a(old(ev_n), 1) == arr(old(e.Formatted[sinkFormat(fs)])) && ev_a(old(ev_n), 3) == len(old(e.Formatted[sinkFormat(fs)]))
//@   ensures C13/success-iff-written-in-full: fs.Writer != nil && e != nil && old(e.Formatted) != nil && old(sinkFormat(fs) in e.Formatted) ==> ((err == nil) <==> (ev_a(old(ev_n), 6) == 0)) && (err == nil ==> ev_a(old(ev_n), 5) == len(old(e.Formatted[sinkFormat(fs)])))
//@   atcall (*bytes.Reader).WriteTo#1 C13+C19/written-under-the-sink-lock: held(fs.l) == 2
//@   ensures unlocked: unchanged("held")
