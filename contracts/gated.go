//go:build verif

// Contracts for package gated, checked by /verif/govc (comment-only file; see /verif/DESIGN.md).

package gated

//@ type Filter guarded_by l: gated, orderedGated, composeFrom, Expiration
//@ type gatedEvent guarded_by Filter.l: events

// Sender.Send and the composition function are caller supplied code.
//@ iface Sender.Send(ctx, t, payload) (st, err)
//@   requires C12/callback-free: cbfree()
//@   assigns ctxdone
//@ functype Filter.composeFrom(events) (t, payload, e)
//@   requires C12/callback-free: cbfree()
//@   assigns ctxdone
//@ functype Filter.NowFunc() (t)
//@   requires C12/callback-free: cbfree()
//@   assigns ctxdone
//@ iface Gateable.GetID() (id)
//@   pureeffect
//@ iface Gateable.FlushEvent() (b)
//@   pureeffect

// The gate: map and list are in bijection; the list is a well-formed doubly linked list.
//@ pure groupOf(el *list.Element) *gatedEvent = ptrAs(valof(el.Value), "*gatedEvent")
//@ pure inGate(w *Filter, el *list.Element) bool = el != nil && elemList(el) == w.orderedGated
//@ pure gateMapOK(w *Filter) bool = forall id string :: (id in w.gated) ==> w.gated[id] != nil && allocated(w.gated[id]) && w.gated[id].id == id && allocated(w.gated[id].element) && inGate(w, w.gated[id].element) && typeis(w.gated[id].element.Value, *gatedEvent) && valof(w.gated[id].element.Value) == w.gated[id]
//@ pure gateListOK(w *Filter) bool = forall el *list.Element, ge *gatedEvent :: inGate(w, el) && ge == valof(el.Value) ==> typeis(el.Value, *gatedEvent) && ge != nil && (ge.id in w.gated) && w.gated[ge.id] == ge && ge.element == el
//@ pure listOK(l *list.List) bool = listLen(l) >= 0 && (forall i int :: 0 <= i && i < listLen(l) ==> listAt(l, i) != nil && allocated(listAt(l, i)) && elemList(listAt(l, i)) == l && elemIdx(listAt(l, i)) == i) && (forall el *list.Element :: el != nil && elemList(el) == l ==> 0 <= elemIdx(el) && elemIdx(el) < listLen(l) && listAt(l, elemIdx(el)) == el)
//@ pure gateOK(w *Filter) bool = ((w.gated == nil) == (w.orderedGated == nil)) && ((w.gated != nil && w.orderedGated != nil) ==> (gateMapOK(w) && gateListOK(w) && listOK(w.orderedGated)))

//@ func (*Filter).openGate(ctx, ge) (err)
//@   requires w != nil && held(w.l) == 2 && w.gated != nil && w.orderedGated != nil && gateOK(w)
//@   requires ge != nil ==> ((ge.id in w.gated) && w.gated[ge.id] == ge)
//@   requires C12/callback-free: cbfree()
//@   assigns map:map[string]*gatedEvent, list, listel, list.Element.Value, ev, ctxdone
//@   ensures C11/nothing-to-open-is-an-error-without-effect: (ge == nil || w.composeFrom == nil) ==> err != nil && ev_n == old(ev_n) && unchanged("map:map[string]*gatedEvent") && unchanged("list") && unchanged("listel")
//@   ensures C11+C17/group-always-removed: ge != nil && w.composeFrom != nil ==> !(ge.id in w.gated) && elemList(ge.element) == 0 && (forall id string :: id != ge.id ==> (id in w.gated) == old(id in w.gated) && w.gated[id] == old(w.gated[id])) && (forall el *list.Element :: el != ge.element ==> elemList(el) == old(elemList(el)))
//@   ensures C17/later-groups-move-up-in-arrival-order: ge != nil && w.composeFrom != nil ==> listLen(w.orderedGated) == old(listLen(w.orderedGated)) - 1 && (forall i int :: 0 <= i ==> listAt(w.orderedGated, i) == ((i < old(elemIdx(ge.element))) ? old(listAt(w.orderedGated, i)) : old(listAt(w.orderedGated, i + 1))))
//@   ensures C11/composed-exactly-once-from-the-groups-events: ge != nil && w.composeFrom != nil ==> calls("fn:Filter.composeFrom") == old(calls("fn:Filter.composeFrom")) + 1 && ev_kind(old(ev_n)) == "callfn:Filter.composeFrom" && ev_a(old(ev_n), 2) == arr(ge.events)
//@   ensures C11/sent-at-most-once-and-only-non-gateable-composites: calls("Sender.Send") <= old(calls("Sender.Send")) + 1 && (err == nil && w.Broker != nil && ge != nil ==> calls("Sender.Send") == old(calls("Sender.Send")) + 1 && ev_kind(ev_n - 1) == "call:gated.Sender.Send" && !tagImplements(ev_a(old(ev_n), 6), "Gateable") && ev_a(ev_n - 1, 3) == ev_a(old(ev_n), 5))
//@   ensures C11/failed-composition-sends-nothing: ge != nil && w.composeFrom != nil && ev_a(old(ev_n), 8) != 0 ==> err != nil && calls("Sender.Send") == old(calls("Sender.Send"))
//@   ensures C11+C17+C19/lock-never-released-while-opening: held(w.l) == 2 && acquisitions(w.l) == old(acquisitions(w.l)) && w.gated != nil && w.orderedGated != nil
//@   ensures gate-map-consistent: gateMapOK(w)
//@   ensures gate-list-consistent: gateListOK(w)
//@   ensures list-wellformed: listOK(w.orderedGated)

//@ func (*Filter).Close(ctx) (err)
//@   requires w != nil && held(w.l) == 0 && gateOK(w)
//@   requires C12/callback-free: cbfree()
//@   ensures C17/a-failing-flush-fails-close: err == nil ==> failedCalls("(*Filter).FlushAll") == 0
//@   ensures C17/nothing-remains-gated: err == nil ==> (w.gated == nil || (forall id string :: !(id in w.gated)))
//@   ensures unlocked: held(w.l) == 0

//@ func (*Filter).FlushAll(ctx) (err)
//@   requires w != nil && held(w.l) == 0 && gateOK(w)
//@   requires C12/callback-free: cbfree()
//@   assigns Filter.gated, Filter.orderedGated, map:map[string]*gatedEvent, list, listel, list.Element.Value, ev, ctxdone, held, lockacq
//@   ensures C11+C17/a-group-that-cannot-be-emitted-fails-the-flush: err == nil ==> failedCalls("(*Filter).openGate") == 0
//@   ensures C17/nothing-remains-gated: err == nil ==> (w.gated == nil || (forall id string :: !(id in w.gated)))
//@   ensures C11+C17/every-group-composed-once-oldest-first: err == nil && old(w.Broker) != nil && old(w.gated) != nil && old(w.orderedGated) != nil && old(w.composeFrom) != nil ==> calls("fn:Filter.composeFrom") == old(calls("fn:Filter.composeFrom")) + old(listLen(w.orderedGated))
//@   ensures C11/no-broker-drops-without-composing: old(w.Broker) == nil ==> calls("fn:Filter.composeFrom") == old(calls("fn:Filter.composeFrom")) && calls("Sender.Send") == old(calls("Sender.Send"))
//@   ensures gate-stays-consistent: gateOK(w)
//@   ensures unlocked: held(w.l) == 0 && (forall x ref :: x != ref(w.l) ==> heldAt(x) == old(heldAt(x)))
//@   ensures C11+C17+C19/single-critical-section: acquisitions(w.l) == old(acquisitions(w.l)) + 1
//@   loop 1 invariant failedCalls("(*Filter).openGate") == 0
//@   loop 1 invariant held(w.l) == 2 && acquisitions(w.l) == old(acquisitions(w.l)) + 1 && w.gated != nil && w.orderedGated != nil && w.composeFrom != nil && w.Broker != nil && gateOK(w) && (forall x ref :: x != ref(w.l) ==> heldAt(x) == old(heldAt(x)))
//@   loop 1 invariant C17/cursor-is-the-oldest-remaining-group: (listLen(w.orderedGated) > 0 ==> e == listAt(w.orderedGated, 0)) && (listLen(w.orderedGated) == 0 ==> e == nil)
//@   loop 1 invariant calls("fn:Filter.composeFrom") + listLen(w.orderedGated) == old(calls("fn:Filter.composeFrom")) + old(listLen(w.orderedGated))

// ghost: the clock reading against which a still-gated group was last examined by the expiry sweep
//@ type Filter ghostfield checkedAt map[*list.Element]time.Time

//@ func (*Filter).Now() (t)
//@   requires w != nil
//@   requires C12/callback-free: cbfree()
//@   assigns ev, ctxdone
//@   ensures calls("Sender.Send") == old(calls("Sender.Send")) && calls("fn:Filter.composeFrom") == old(calls("fn:Filter.composeFrom"))

//@ func (*Filter).processExpiredEvents(ctx) (err)
//@   requires w != nil && held(w.l) == 0 && gateOK(w)
//@   requires C12/callback-free: cbfree()
//@   assigns Filter.Expiration, Filter.checkedAt, map:map[string]*gatedEvent, list, listel, list.Element.Value, ev, ctxdone, held, lockacq
//@   ensures C11+C17/an-expired-group-that-cannot-be-emitted-fails-the-sweep: err == nil ==> failedCalls("(*Filter).openGate") == 0
//@   ensures C17/no-examined-group-was-expired: err == nil && w.gated != nil && w.orderedGated != nil && old(len(w.gated)) > 0 ==> (forall i int :: 0 <= i && i < listLen(w.orderedGated) ==> !ufbool("time.After", w.checkedAt[listAt(w.orderedGated, i)], groupOf(listAt(w.orderedGated, i)).exp))
//@   ensures C11/only-expired-groups-are-emitted: calls("Sender.Send") <= calls("fn:Filter.composeFrom") - old(calls("fn:Filter.composeFrom")) + old(calls("Sender.Send"))
//@   ensures gate-stays-consistent: gateOK(w) && w.gated == old(w.gated) && w.orderedGated == old(w.orderedGated) && w.composeFrom == old(w.composeFrom)
//@   ensures C11/surviving-groups-keep-their-events: forall id string :: w.gated != nil && (id in w.gated) ==> old(id in w.gated) && w.gated[id] == old(w.gated[id])
//@   ensures unlocked: held(w.l) == 0 && (forall x ref :: x != ref(w.l) ==> heldAt(x) == old(heldAt(x))) && acquisitions(w.l) == old(acquisitions(w.l)) + 1
//@   ghost at loop 1 backedge havoc Filter.checkedAt: (forall x *list.Element :: x != ge.element ==> w.checkedAt[x] == old(w.checkedAt[x])) && (elemList(ge.element) != nil ==> !ufbool("time.After", w.checkedAt[ge.element], ge.exp))
//@   loop 1 invariant failedCalls("(*Filter).openGate") == 0
//@   loop 1 invariant held(w.l) == 2 && w.gated != nil && w.orderedGated != nil && w.composeFrom != nil && gateOK(w) && w.gated == old(w.gated) && w.orderedGated == old(w.orderedGated) && w.composeFrom == old(w.composeFrom) && (forall x ref :: x != ref(w.l) ==> heldAt(x) == old(heldAt(x))) && acquisitions(w.l) == old(acquisitions(w.l)) + 1
//@   loop 1 invariant C17/cursor-walks-the-list-in-order: (e != nil ==> inGate(w, e)) && (forall i int :: 0 <= i && i < ((e != nil) ? elemIdx(e) : listLen(w.orderedGated)) ==> !ufbool("time.After", w.checkedAt[listAt(w.orderedGated, i)], groupOf(listAt(w.orderedGated, i)).exp))
//@   loop 1 invariant calls("Sender.Send") <= calls("fn:Filter.composeFrom") - old(calls("fn:Filter.composeFrom")) + old(calls("Sender.Send"))
//@   loop 1 invariant forall id string :: (id in w.gated) ==> old(id in w.gated) && w.gated[id] == old(w.gated[id])

//@ pure gateable(e *eventlogger.Event) bool = typeis(e.Payload, Gateable)
//@ pure idOf(e *eventlogger.Event) string = purecall("Gateable.GetID", e.Payload)
//@ pure flushes(e *eventlogger.Event) bool = purecall("Gateable.FlushEvent", e.Payload) == 1

//@ func (*Filter).Process(ctx, e) (out, err)
//@   requires w != nil && held(w.l) == 0 && gateOK(w)
//@   requires C12/callback-free: cbfree()
//@   ensures C11+C17/a-failing-expiry-sweep-fails-the-event: err == nil ==> failedCalls("(*Filter).processExpiredEvents") == 0
//@   ensures C11+C19/appending-composing-and-removing-a-group-is-one-critical-section: e != nil && gateable(e) && idOf(e) != "" && failedCalls("(*Filter).processExpiredEvents") == 0 ==> acquisitions(w.l) == old(acquisitions(w.l)) + 3
//@   ensures C11/missing-event-rejected: e == nil ==> err != nil && out == nil && ev_n == old(ev_n)
//@   ensures C11/non-gateable-events-pass-through-unchanged: e != nil && !gateable(e) ==> out == e && err == nil && ev_n == old(ev_n) && unchanged("map:map[string]*gatedEvent") && unchanged("list") && unchanged("listel") && w.gated == old(w.gated) && w.orderedGated == old(w.orderedGated)
//@   ensures C11/events-without-an-id-are-rejected: e != nil && gateable(e) && idOf(e) == "" ==> err != nil && out == nil && ev_n == old(ev_n) && unchanged("map:map[string]*gatedEvent") && unchanged("list") && unchanged("listel")
//@   ensures C11/accepted-event-is-withheld-last-in-its-group: e != nil && gateable(e) && idOf(e) != "" && !flushes(e) && err == nil ==> out == nil && w.gated != nil && (idOf(e) in w.gated) && len(w.gated[idOf(e)].events) >= 1 && w.gated[idOf(e)].events[len(w.gated[idOf(e)].events) - 1] == e
//@   ensures C11/flush-removes-the-group-whether-or-not-composition-succeeds: e != nil && gateable(e) && idOf(e) != "" && flushes(e) && acquisitions(w.l) == old(acquisitions(w.l)) + 3 ==> w.gated != nil && !(idOf(e) in w.gated)
//@   ensures C11/flush-forwards-a-fresh-composite-or-an-error: e != nil && gateable(e) && idOf(e) != "" && flushes(e) ==> (out == nil || (err == nil && fresh(out) && out != e && out.Formatted != nil && len(out.Formatted) == 0))
//@   ensures C11/withheld-events-forward-nothing: e != nil && gateable(e) && !flushes(e) ==> out == nil
//@   ensures gate-both-or-neither: (w.gated == nil) == (w.orderedGated == nil)
//@   ensures gate-map-consistent: w.gated != nil && w.orderedGated != nil ==> gateMapOK(w)
//@   ensures gate-list-consistent: w.gated != nil && w.orderedGated != nil ==> gateListOK(w)
//@   ensures list-wellformed: w.gated != nil && w.orderedGated != nil ==> listOK(w.orderedGated)
//@   ensures unlocked: held(w.l) == 0
