#!/bin/sh
# usage: harmless_run.sh <edit-id> <prop ...> – applies a behaviour-preserving edit to /repo, runs the given quick checks
# (which must stay quiet), reverts. Prints one line per check.
id="$1"; shift
p=/verif/harmless/$id/patch.diff
cd /repo && git apply "$p" || { echo "NOAPPLY $id"; exit 3; }
trap 'cd /repo && git apply -R "$p"' EXIT INT TERM
for c in "$@"; do
  [ -f /verif/evidence/$c.json ] && cp /verif/evidence/$c.json /tmp/evidence.$c.$$.json
  out=$(/verif/bin/vcheck $c quick 2>&1); rc=$?
  [ -f /tmp/evidence.$c.$$.json ] && mv /tmp/evidence.$c.$$.json /verif/evidence/$c.json
  echo "$id $c exit=$rc $(echo "$out" | grep -c '^VIOLATION') violation(s) $(echo "$out" | grep -c '^ENGINE-ERROR') engine-error(s)"
  echo "$out" | grep '^VIOLATION\|^ENGINE-ERROR' | cut -c1-300 | head -4
done
