#!/bin/sh
# runs the registered quick check of the broken property against every seeded change; writes /verif/out/seed_matrix.txt
cd /verif
out=/verif/out/seed_matrix.txt
: > $out
for d in seeded/*/; do
  id=$(basename $d)
  SEED_LINES=2 tools/seed_detect.sh $id >> $out 2>&1
done
cat $out | grep "exit=\|NOAPPLY"
