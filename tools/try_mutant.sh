#!/bin/sh
# usage: try_mutant.sh <patch.diff> <govc run args...>   – applies a patch to /repo, runs govc, reverts the patch
p="$1"; shift
cd /repo && git apply "$p" || { echo "PATCH DOES NOT APPLY: $p"; exit 3; }
cd /verif && bin/govc run "$@" 2>&1 | grep "BAD\|total bad\|ERROR\|abstracted" | cut -c1-220 | head -${MUT_LINES:-12}
cd /repo && git apply -R "$p"
