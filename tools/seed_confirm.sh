#!/bin/bash
# Confirms seeded changes in a scratch worktree of /repo HEAD: existing tests pass with the change, the demo fails
# with it and passes without it. Writes /verif/seeded/<id>/{patch.diff,demo_test.go,notes.md,meta.json}.
export GOFLAGS=-mod=mod GOPROXY=off GOSUMDB=off GOTOOLCHAIN=local
WT=/tmp/seedconfirm
git -C /repo worktree remove --force $WT 2>/dev/null
git -C /repo worktree add -q --detach $WT HEAD || exit 1
for d in ${SEED_SRC:-/tmp/seed}/C*.out/change*; do
  prop=$(basename $(dirname $d) .out); n=$(basename $d); id="$prop-${SEED_TAG:-}$n"
  [ -f $d/patch.diff ] && [ -f $d/demo_test.go ] || { echo "$id: incomplete deliverable"; continue; }
  pkg=$(grep -m1 '^package ' $d/demo_test.go | awk '{print $2}')
  case "$pkg" in
    eventlogger|eventlogger_test) dir=.; mod=.;;
    gated|gated_test) dir=filters/gated; mod=.;;
    cloudevents|cloudevents_test) dir=formatter_filters/cloudevents; mod=.;;
    writer|writer_test) dir=sinks/writer; mod=.;;
    channel|channel_test) dir=sinks/channel; mod=.;;
    encrypt|encrypt_test) dir=filters/encrypt; mod=filters/encrypt;;
    *) echo "$id: unknown package $pkg"; continue;;
  esac
  cd $WT && git checkout -q -- . && git clean -qfd
  applies=true; git apply --check $d/patch.diff 2>/dev/null || applies=false
  res_tests=na; res_demo_with=na; res_demo_without=na
  if $applies; then
    # demo without the change
    cp $d/demo_test.go $WT/$dir/zz_seed_demo_test.go
    (cd $WT/$mod && timeout 300 go test -vet=off -count=1 -timeout 120s ./$( [ "$mod" = "." ] && echo $dir || echo . )/ >/tmp/seed_wo.log 2>&1) && res_demo_without=pass || res_demo_without=fail
    rm -f $WT/$dir/zz_seed_demo_test.go
    git apply $d/patch.diff
    (cd $WT/$mod && timeout 600 go test -vet=off -count=1 -timeout 300s ./... >/tmp/seed_t.log 2>&1) && res_tests=pass || res_tests=fail
    cp $d/demo_test.go $WT/$dir/zz_seed_demo_test.go
    (cd $WT/$mod && timeout 300 go test -vet=off -count=1 -timeout 120s ./$( [ "$mod" = "." ] && echo $dir || echo . )/ >/tmp/seed_w.log 2>&1) && res_demo_with=pass || res_demo_with=fail
    rm -f $WT/$dir/zz_seed_demo_test.go
  fi
  mkdir -p /verif/seeded/$id
  cp $d/patch.diff $d/demo_test.go /verif/seeded/$id/; cp $d/notes.md /verif/seeded/$id/ 2>/dev/null
  python3 - "$id" "$prop" "$dir" "$applies" "$res_tests" "$res_demo_with" "$res_demo_without" <<'PY'
import json,sys
id,prop,d,applies,t,w,wo=sys.argv[1:]
notes=open(f'/verif/seeded/{id}/notes.md').read() if __import__('os').path.exists(f'/verif/seeded/{id}/notes.md') else ''
confirmed = applies=='true' and t=='pass' and w=='fail' and wo=='pass'
json.dump({"id":id,"breaks_property":prop,"demo_dir":d,"applies_to_current_tree":applies=='true',
  "existing_tests_with_change":t,"demo_with_change":w,"demo_without_change":wo,"confirmed":confirmed,
  "what_i_ran":"git apply patch.diff in a scratch worktree of /repo HEAD; go test -vet=off -count=1 ./... (existing suite); demo_test.go dropped into demo_dir and run with and without the change",
  "needs_to_manifest":notes[:1500]}, open(f'/verif/seeded/{id}/meta.json','w'), indent=1)
print(id, 'applies' if applies=='true' else 'NOAPPLY', t, w, wo, 'CONFIRMED' if confirmed else 'not-confirmed')
PY
done
cd / && git -C /repo worktree remove --force $WT
