#!/bin/sh
# usage: rebaseline.sh [prop ...] – three runs per property, keeping only clause keys discharged fast in all three
cd /verif
props="$*"
[ -n "$props" ] || props=$(python3 -c "import json;print(' '.join(sorted(json.load(open('/verif/props.json')))))")
for c in $props; do
  bin/govc check --write-baseline $c 2>&1 | tail -1
  VERIF_BASELINE_INTERSECT=1 bin/govc check --write-baseline $c 2>&1 | tail -1
  VERIF_BASELINE_INTERSECT=1 bin/govc check --write-baseline $c 2>&1 | tail -1
done
