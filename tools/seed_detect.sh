#!/bin/sh
# usage: seed_detect.sh <seeded-id> [prop ...]  – applies /verif/seeded/<id>/patch.diff to /repo, runs the registered
# quick check of the property it breaks (or the given ones), prints the verdict lines, reverts the patch.
id="$1"; shift
d=/verif/seeded/$id
p=$d/patch.diff
[ -f "$p" ] || { echo "no such seeded change: $id"; exit 3; }
props="$*"
[ -n "$props" ] || props=$(python3 -c "import json;print(json.load(open('$d/meta.json'))['breaks_property'])")
cd /repo && git apply "$p" || { echo "NOAPPLY $id"; exit 3; }
trap 'cd /repo && git apply -R "$p"' EXIT INT TERM
for c in $props; do
  # the evidence file is rewritten by every run: keep the one of the unchanged tree
  [ -f /verif/evidence/$c.json ] && cp /verif/evidence/$c.json /tmp/evidence.$c.$$.json
  out=$(/verif/bin/vcheck $c quick 2>&1); rc=$?
  [ -f /tmp/evidence.$c.$$.json ] && mv /tmp/evidence.$c.$$.json /verif/evidence/$c.json
  echo "$id $c exit=$rc $(echo "$out" | grep -c '^VIOLATION') violation line(s)"
  echo "$out" | grep '^VIOLATION\|ENGINE-ERROR' | cut -c1-260 | head -${SEED_LINES:-6}
done
