#!/bin/sh
# Copies the master copies of the contract files from /verif/contracts into /repo (guarded, comment-only files).
set -e
cp /verif/contracts/eventlogger.go /repo/verif_contracts.go
[ -f /verif/contracts/gated.go ] && cp /verif/contracts/gated.go /repo/filters/gated/verif_contracts.go
[ -f /verif/contracts/writer.go ] && cp /verif/contracts/writer.go /repo/sinks/writer/verif_contracts.go
[ -f /verif/contracts/channel.go ] && cp /verif/contracts/channel.go /repo/sinks/channel/verif_contracts.go
[ -f /verif/contracts/cloudevents.go ] && cp /verif/contracts/cloudevents.go /repo/formatter_filters/cloudevents/verif_contracts.go
[ -f /verif/contracts/encrypt.go ] && cp /verif/contracts/encrypt.go /repo/filters/encrypt/verif_contracts.go
exit 0
